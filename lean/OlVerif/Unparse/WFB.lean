/-
  Executable form of the well-formedness predicate (`wfB`) and its soundness: the driver
  evaluates it on every tree of the correspondence corpus, so that the hypothesis of
  C03.unparse_derives is known to cover the trees the parser and the converter produce.
-/
import OlVerif.Unparse.WF

set_option linter.unusedVariables false

namespace OlVerif

def wfCB : Const → Bool
  | .none | .true_ | .false_ | .ellipsis => true
  | .int n => decide (0 ≤ n)
  | .str cps => cps.all fun c => decide (c < 0x110000)
  | .bytes _ => true
  | .float r => (lexRepr (replaceInf r)).length == 1
  | .complex r => (lexRepr (replaceInf r)).length == 1

theorem wfCB_sound (c : Const) (h : wfCB c = true) : wfC c := by
  cases c with
  | none => trivial
  | true_ => trivial
  | false_ => trivial
  | ellipsis => trivial
  | int n => simpa [wfCB, wfC] using h
  | str cps => simpa [wfCB, wfC, List.all_eq_true] using h
  | bytes r => trivial
  | float r =>
    simp only [wfCB, beq_iff_eq] at h
    match hl : lexRepr (replaceInf r), h with
    | [t], _ => exact ⟨t, hl⟩
  | complex r =>
    simp only [wfCB, beq_iff_eq] at h
    match hl : lexRepr (replaceInf r), h with
    | [t], _ => exact ⟨t, hl⟩

def headNotConstStr (vs : List Expr) : Bool :=
  match vs with
  | [] => true
  | v :: _ => !isConstStrE v

theorem headNotConstStr_sound (vs : List Expr) (h : headNotConstStr vs = true) :
    vs.head?.map isConstStrE ≠ some true := by
  cases vs with
  | nil => simp
  | cons v vs => simp [headNotConstStr] at h; simp [h]

mutual
  def wfEB : Expr → Bool
    | .name _ => true
    | .const c => wfCB c
    | .joinedStr vs => wfPartsB vs
    | .formattedValue .. => false
    | .list es => wfEltsB es
    | .tuple es => wfEltsB es
    | .set es => !es.isEmpty && wfEltsB es
    | .dict items => wfItemsB items
    | .starred _ => false
    | .attribute v _ => wfEB v
    | .subscript v s => wfEB v && wfSliceB s
    | .slice .. => false
    | .call f as ks => wfEB f && wfEltsB as && wfKwsB ks
    | .binOp a _ b => wfEB a && wfEB b
    | .boolOp _ vs => decide (2 ≤ vs.length) && wfLB vs
    | .unaryOp _ v => wfEB v
    | .compare l ops cs => wfEB l && decide (ops.length = cs.length) && !ops.isEmpty && wfLB cs
    | .ifExp t b e => wfEB t && wfEB b && wfEB e
    | .lambda as b => wfAB as && wfEB b
    | .namedExpr _ v => wfEB v
    | .listComp e gs => wfEB e && !gs.isEmpty && wfGB gs
    | .setComp e gs => wfEB e && !gs.isEmpty && wfGB gs
    | .generatorExp e gs => wfEB e && !gs.isEmpty && wfGB gs
    | .dictComp k v gs => wfEB k && wfEB v && !gs.isEmpty && wfGB gs
    | .yield_ v => wfOB v
    | .yieldFrom v => wfEB v
    | .await v => wfEB v
  def wfLB : List Expr → Bool
    | [] => true
    | e :: es => wfEB e && wfLB es
  def wfOB : Option Expr → Bool
    | none => true
    | some e => wfEB e
  def wfOLB : List (Option Expr) → Bool
    | [] => true
    | none :: es => wfOLB es
    | some e :: es => wfEB e && wfOLB es
  def wfEltsB : List Expr → Bool
    | [] => true
    | .starred v :: es => wfEB v && wfEltsB es
    | e :: es => wfEB e && wfEltsB es
  def wfItemsB : List DictItem → Bool
    | [] => true
    | .mk none v :: its => wfEB v && wfItemsB its
    | .mk (some k) v :: its => wfEB k && wfEB v && wfItemsB its
  def wfKwsB : List Keyword → Bool
    | [] => true
    | .mk _ v :: ks => wfEB v && wfKwsB ks
  def wfGB : List Comp → Bool
    | [] => true
    | .mk t i ifs _ :: gs => targetKind t && wfEB t && wfEB i && wfLB ifs && wfGB gs
  def wfSliceB : Expr → Bool
    | .slice a b c => wfOB a && wfOB b && wfOB c
    | .tuple es => if es.any isSlice then wfSliceEltsB es else wfEltsB es
    | .starred _ => false
    | e => wfEB e
  def wfSliceEltsB : List Expr → Bool
    | [] => true
    | .slice a b c :: es => wfOB a && wfOB b && wfOB c && wfSliceEltsB es
    | .starred v :: es => wfEB v && wfSliceEltsB es
    | e :: es => wfEB e && wfSliceEltsB es
  def wfPartsB : List Expr → Bool
    | [] => true
    | .const (.str cps) :: vs =>
        (cps.all fun c => decide (c < 0x110000)) && !cps.isEmpty && headNotConstStr vs && wfPartsB vs
    | .formattedValue v conv spec :: vs =>
        wfEB v && decide (conv ∈ [(-1 : Int), 114, 115, 97]) && wfSpecB spec && wfPartsB vs
    | _ :: _ => false
  def wfSpecB : Option Expr → Bool
    | none => true
    | some (.joinedStr vs) => wfPartsB vs && specNoBrace vs
    | some _ => false
  def wfAB : Arguments → Bool
    | .mk po as _ ko kd _ ds =>
        decide (ds.length ≤ (po ++ as).length) && decide (kd.length = ko.length) && wfLB ds && wfOLB kd
end


theorem ne_nil_of_not_isEmpty {α : Type} {l : List α} (h : (!l.isEmpty) = true) : l ≠ [] := by
  cases l <;> simp_all

mutual
  theorem wfEB_sound : ∀ e, wfEB e = true → wfE e
    | .name _, _ => by simp only [wfE]
    | .const c, h => by simp only [wfEB] at h; simp only [wfE]; exact wfCB_sound c h
    | .joinedStr vs, h => by simp only [wfEB] at h; simp only [wfE]; exact wfPartsB_sound vs h
    | .formattedValue .., h => by simp [wfEB] at h
    | .starred _, h => by simp [wfEB] at h
    | .slice .., h => by simp [wfEB] at h
    | .list es, h => by simp only [wfEB] at h; simp only [wfE]; exact wfEltsB_sound es h
    | .tuple es, h => by simp only [wfEB] at h; simp only [wfE]; exact wfEltsB_sound es h
    | .set es, h => by
        simp only [wfEB, Bool.and_eq_true] at h; simp only [wfE]
        exact ⟨ne_nil_of_not_isEmpty h.1, wfEltsB_sound es h.2⟩
    | .dict items, h => by simp only [wfEB] at h; simp only [wfE]; exact wfItemsB_sound items h
    | .attribute v _, h => by simp only [wfEB] at h; simp only [wfE]; exact wfEB_sound v h
    | .subscript v s, h => by
        simp only [wfEB, Bool.and_eq_true] at h; simp only [wfE]
        refine ⟨wfEB_sound v h.1, ?_⟩
        have h2 := h.2
        cases s with
        | slice a b c =>
          simp only [wfSliceB, Bool.and_eq_true] at h2; simp only [wfSlice]
          exact ⟨wfOB_sound a h2.1.1, wfOB_sound b h2.1.2, wfOB_sound c h2.2⟩
        | tuple es =>
          simp only [wfSliceB] at h2; simp only [wfSlice]
          split
          · rename_i hany; rw [if_pos hany] at h2; exact wfSliceEltsB_sound es h2
          · rename_i hany; rw [if_neg hany] at h2; exact wfEltsB_sound es h2
        | starred _ => simp [wfSliceB] at h2
        | _ =>
          simp only [wfSliceB] at h2; simp only [wfSlice]
          exact wfEB_sound _ h2
    | .call f as ks, h => by
        simp only [wfEB, Bool.and_eq_true] at h; simp only [wfE]
        exact ⟨wfEB_sound f h.1.1, wfEltsB_sound as h.1.2, wfKwsB_sound ks h.2⟩
    | .binOp a _ b, h => by
        simp only [wfEB, Bool.and_eq_true] at h; simp only [wfE]
        exact ⟨wfEB_sound a h.1, wfEB_sound b h.2⟩
    | .boolOp _ vs, h => by
        simp only [wfEB, Bool.and_eq_true, decide_eq_true_eq] at h; simp only [wfE]
        exact ⟨h.1, wfLB_sound vs h.2⟩
    | .unaryOp _ v, h => by simp only [wfEB] at h; simp only [wfE]; exact wfEB_sound v h
    | .compare l ops cs, h => by
        simp only [wfEB, Bool.and_eq_true, decide_eq_true_eq] at h; simp only [wfE]
        exact ⟨wfEB_sound l h.1.1.1, h.1.1.2, ne_nil_of_not_isEmpty h.1.2, wfLB_sound cs h.2⟩
    | .ifExp t b e, h => by
        simp only [wfEB, Bool.and_eq_true] at h; simp only [wfE]
        exact ⟨wfEB_sound t h.1.1, wfEB_sound b h.1.2, wfEB_sound e h.2⟩
    | .lambda as b, h => by
        simp only [wfEB, Bool.and_eq_true] at h; simp only [wfE]
        exact ⟨wfAB_sound as h.1, wfEB_sound b h.2⟩
    | .namedExpr _ v, h => by simp only [wfEB] at h; simp only [wfE]; exact wfEB_sound v h
    | .listComp e gs, h => by
        simp only [wfEB, Bool.and_eq_true] at h; simp only [wfE]
        exact ⟨wfEB_sound e h.1.1, ne_nil_of_not_isEmpty h.1.2, wfGB_sound gs h.2⟩
    | .setComp e gs, h => by
        simp only [wfEB, Bool.and_eq_true] at h; simp only [wfE]
        exact ⟨wfEB_sound e h.1.1, ne_nil_of_not_isEmpty h.1.2, wfGB_sound gs h.2⟩
    | .generatorExp e gs, h => by
        simp only [wfEB, Bool.and_eq_true] at h; simp only [wfE]
        exact ⟨wfEB_sound e h.1.1, ne_nil_of_not_isEmpty h.1.2, wfGB_sound gs h.2⟩
    | .dictComp k v gs, h => by
        simp only [wfEB, Bool.and_eq_true] at h; simp only [wfE]
        exact ⟨wfEB_sound k h.1.1.1, wfEB_sound v h.1.1.2, ne_nil_of_not_isEmpty h.1.2, wfGB_sound gs h.2⟩
    | .yield_ v, h => by simp only [wfEB] at h; simp only [wfE]; exact wfOB_sound v h
    | .yieldFrom v, h => by simp only [wfEB] at h; simp only [wfE]; exact wfEB_sound v h
    | .await v, h => by simp only [wfEB] at h; simp only [wfE]; exact wfEB_sound v h
  theorem wfLB_sound : ∀ es, wfLB es = true → wfL es
    | [], _ => by simp only [wfL]
    | e :: es, h => by
        simp only [wfLB, Bool.and_eq_true] at h; simp only [wfL]
        exact ⟨wfEB_sound e h.1, wfLB_sound es h.2⟩
  theorem wfOB_sound : ∀ o, wfOB o = true → wfO o
    | none, _ => by simp only [wfO]
    | some e, h => by simp only [wfOB] at h; simp only [wfO]; exact wfEB_sound e h
  theorem wfOLB_sound : ∀ es, wfOLB es = true → wfOL es
    | [], _ => by simp only [wfOL]
    | none :: es, h => by simp only [wfOLB] at h; simp only [wfOL]; exact wfOLB_sound es h
    | some e :: es, h => by
        simp only [wfOLB, Bool.and_eq_true] at h; simp only [wfOL]
        exact ⟨wfEB_sound e h.1, wfOLB_sound es h.2⟩
  theorem wfEltsB_sound : ∀ es, wfEltsB es = true → wfElts es
    | [], _ => by simp only [wfElts]
    | e :: es, h => by
        cases e with
        | starred v =>
          simp only [wfEltsB, Bool.and_eq_true] at h; simp only [wfElts]
          exact ⟨wfEB_sound v h.1, wfEltsB_sound es h.2⟩
        | _ =>
          simp only [wfEltsB, Bool.and_eq_true] at h; simp only [wfElts]
          exact ⟨wfEB_sound _ h.1, wfEltsB_sound es h.2⟩
  theorem wfItemsB_sound : ∀ its, wfItemsB its = true → wfItems its
    | [], _ => by simp only [wfItems]
    | .mk none v :: its, h => by
        simp only [wfItemsB, Bool.and_eq_true] at h; simp only [wfItems]
        exact ⟨wfEB_sound v h.1, wfItemsB_sound its h.2⟩
    | .mk (some k) v :: its, h => by
        simp only [wfItemsB, Bool.and_eq_true] at h; simp only [wfItems]
        exact ⟨wfEB_sound k h.1.1, wfEB_sound v h.1.2, wfItemsB_sound its h.2⟩
  theorem wfKwsB_sound : ∀ ks, wfKwsB ks = true → wfKws ks
    | [], _ => by simp only [wfKws]
    | .mk _ v :: ks, h => by
        simp only [wfKwsB, Bool.and_eq_true] at h; simp only [wfKws]
        exact ⟨wfEB_sound v h.1, wfKwsB_sound ks h.2⟩
  theorem wfGB_sound : ∀ gs, wfGB gs = true → wfG gs
    | [], _ => by simp only [wfG]
    | .mk t i ifs _ :: gs, h => by
        simp only [wfGB, Bool.and_eq_true] at h; simp only [wfG]
        exact ⟨h.1.1.1.1, wfEB_sound t h.1.1.1.2, wfEB_sound i h.1.1.2, wfLB_sound ifs h.1.2, wfGB_sound gs h.2⟩
  theorem wfSliceEltsB_sound : ∀ es, wfSliceEltsB es = true → wfSliceElts es
    | [], _ => by simp only [wfSliceElts]
    | e :: es, h => by
        cases e with
        | slice a b c =>
          simp only [wfSliceEltsB, Bool.and_eq_true] at h; simp only [wfSliceElts]
          exact ⟨wfOB_sound a h.1.1.1, wfOB_sound b h.1.1.2, wfOB_sound c h.1.2, wfSliceEltsB_sound es h.2⟩
        | starred v =>
          simp only [wfSliceEltsB, Bool.and_eq_true] at h; simp only [wfSliceElts]
          exact ⟨wfEB_sound v h.1, wfSliceEltsB_sound es h.2⟩
        | _ =>
          simp only [wfSliceEltsB, Bool.and_eq_true] at h; simp only [wfSliceElts]
          exact ⟨wfEB_sound _ h.1, wfSliceEltsB_sound es h.2⟩
  theorem wfPartsB_sound : ∀ vs, wfPartsB vs = true → wfParts vs
    | [], _ => by simp only [wfParts]
    | e :: vs, h => by
        cases e with
        | const c =>
          cases c with
          | str cps =>
            simp only [wfPartsB, Bool.and_eq_true, List.all_eq_true, decide_eq_true_eq] at h; simp only [wfParts]
            exact ⟨h.1.1.1, ne_nil_of_not_isEmpty h.1.1.2, headNotConstStr_sound vs h.1.2, wfPartsB_sound vs h.2⟩
          | _ => simp [wfPartsB] at h
        | formattedValue v conv spec =>
          simp only [wfPartsB, Bool.and_eq_true, decide_eq_true_eq] at h; simp only [wfParts]
          exact ⟨wfEB_sound v h.1.1.1, h.1.1.2, wfSpecB_sound spec h.1.2, wfPartsB_sound vs h.2⟩
        | _ => simp [wfPartsB] at h
  theorem wfSpecB_sound : ∀ o, wfSpecB o = true → wfSpec o
    | none, _ => by simp only [wfSpec]
    | some e, h => by
        cases e with
        | joinedStr vs =>
          simp only [wfSpecB, Bool.and_eq_true] at h; simp only [wfSpec]; exact ⟨wfPartsB_sound vs h.1, h.2⟩
        | _ => simp [wfSpecB] at h
  theorem wfAB_sound : ∀ a, wfAB a = true → wfA a
    | .mk po as _ ko kd _ ds, h => by
        simp only [wfAB, Bool.and_eq_true, decide_eq_true_eq] at h; simp only [wfA]
        exact ⟨h.1.1.1, h.1.1.2, wfLB_sound ds h.1.2, wfOLB_sound kd h.2⟩
end

end OlVerif
