/-
  Every well-formed tree's rendering derives, in the grammar, the tree it was rendered from.
  Helper lemmas and the mutual induction; the property theorem is in Props/C03.lean.
-/
import OlVerif.Grammar.Derives
import OlVerif.Unparse.WF
import OlVerif.Props.C04

set_option linter.unusedVariables false
set_option linter.unusedSimpArgs false

namespace OlVerif
open Spec

/-! ### the code's tables against the specification's terminals and levels -/

theorem binOpText_eq (op : BinOpK) : binOpText op = binSym op := by cases op <;> rfl
theorem unaryOpTok_eq (op : UnaryOpK) : unaryOpTok op = unTok op := by cases op <;> decide +kernel
theorem boolOpTok_eq (op : BoolOpK) : boolOpTok op = boolTok op := by cases op <;> decide +kernel
theorem cmpOpToks_eq (op : CmpOpK) : cmpOpToks op = cmpToks op := by cases op <;> decide +kernel
theorem unary_slot_lv (op : UnaryOpK) : slotLv (.unary op) = kindLv (.unaryOp op) := by cases op <;> rfl

theorem kindLv_le (k : Kind) : kindLv k ≤ Lv.yieldExpr := by
  cases k <;> first | decide | (rename_i op; cases op <;> decide)

/-- the ladder (C03.table_sound), restated here to keep this file below Props -/
theorem table_sound' (s : Slot) (k : Kind) (hk : k.ordinary = true) (hs : s.exprSlot = true)
    (h : nodePrec k ≤ slotPrec s) : kindLv k ≤ slotLv s := by
  cases s <;> cases k <;> first
    | (rename_i op1 op2; cases op1 <;> cases op2 <;> revert h hk hs <;> decide)
    | (rename_i op1; cases op1 <;> revert h hk hs <;> decide)
    | (revert h hk hs; decide)

/-- parenthesise-or-not always lands at the level the grammar has at the slot -/
theorem wrap_D {s : Slot} {k : Kind} {ts : List Tok} {e : Expr} (hk : k.ordinary = true)
    (hs : s.exprSlot = true) (h : D (kindLv k) ts e) : D (slotLv s) (wrap s k ts) e := by
  unfold wrap
  split
  · exact D.up (D.group h (kindLv_le k)) (Nat.zero_le _)
  · rename_i hn
    exact D.up h (table_sound' s k hk hs (by omega))

/-- the same when the level is known to fit whatever the ladder says (comprehension targets) -/
theorem wrap_D_of_le {s : Slot} {k : Kind} {ts : List Tok} {e : Expr} {lv : Nat} (hle : kindLv k ≤ lv)
    (h : D (kindLv k) ts e) : D lv (wrap s k ts) e := by
  unfold wrap
  split
  · exact D.up (D.group h (kindLv_le k)) (Nat.zero_le _)
  · exact D.up h hle

theorem wrap_starred {s : Slot} (hs : s ∈ starredSlots) (ts : List Tok) : wrap s .starred ts = ts := by
  unfold wrap
  have : nodePrec .starred ≤ slotPrec s := by revert s; decide
  rw [if_neg (by omega)]

theorem wrap_slice {s : Slot} (hs : s ∈ sliceSlots) (ts : List Tok) : wrap s .slice ts = ts := by
  unfold wrap
  have : nodePrec .slice ≤ slotPrec s := by revert s; decide
  rw [if_neg (by omega)]

theorem wrap_fv (ts : List Tok) : wrap .jsValue .formattedValue ts = ts := by
  unfold wrap
  have : nodePrec .formattedValue ≤ slotPrec .jsValue := by decide
  rw [if_neg (by omega)]

/-- a well-formed expression in an ordinary position has an ordinary kind -/
theorem ordinary_of_wfE : ∀ (e : Expr), wfE e → (kindOf e).ordinary = true := by
  intro e h
  cases e <;> first | rfl | (simp [wfE] at h)

theorem specNoBrace_eq : ∀ vs, specNoBrace vs = specLitsNoBrace vs
  | [] => rfl
  | e :: vs => by
      cases e with
      | const c => cases c <;> simp [specNoBrace, specLitsNoBrace, specNoBrace_eq vs]
      | _ => simp [specNoBrace, specLitsNoBrace, specNoBrace_eq vs]

theorem strReads_escape (q : Quote) (cps : List Nat) (h : ∀ c ∈ cps, c < 0x110000) : StrReads q (escape q cps) cps :=
  ⟨cps.length + 1, by simpa using C04.escape_roundtrip q cps [] h⟩

theorem fmidReads_escape (q : Quote) (cps : List Nat) (h : ∀ c ∈ cps, c < 0x110000) :
    FmidReads q (doubleBraces (escape q cps)) cps :=
  ⟨escape q cps, undouble_doubleBraces _, strReads_escape q cps h⟩

theorem const_D (q : Quote) (c : Const) (h : wfC c) : D Lv.atom (unparseConst q c) (.const c) := by
  cases c with
  | none => exact D.const LexConst.none
  | true_ => exact D.const LexConst.true_
  | false_ => exact D.const LexConst.false_
  | ellipsis => exact D.const LexConst.ellipsis
  | int n =>
    simp only [wfC] at h
    obtain ⟨m, rfl⟩ : ∃ m : Nat, n = (m : Int) := ⟨n.toNat, by omega⟩
    simp only [unparseConst]
    rw [if_neg (by omega)]
    exact D.const (LexConst.int m)
  | str cps => exact D.const (LexConst.str q _ _ (strReads_escape q cps h))
  | bytes r => exact D.const (LexConst.repr q (.bytes r) _ (by intro s hs; cases hs) (by intro n hn; cases hn) rfl)
  | float r =>
    obtain ⟨t, ht⟩ := h
    have e : unparseConst q (.float r) = [t] := ht
    rw [e]
    exact D.const (LexConst.repr q (.float r) t (by intro s hs; cases hs) (by intro n hn; cases hn) e)
  | complex r =>
    obtain ⟨t, ht⟩ := h
    have e : unparseConst q (.complex r) = [t] := ht
    rw [e]
    exact D.const (LexConst.repr q (.complex r) t (by intro s hs; cases hs) (by intro n hn; cases hn) e)


theorem length_unparseOptList (s : Slot) (oq : Quote) : ∀ ds, (unparseOptList s oq ds).length = ds.length
  | [] => by simp [unparseOptList]
  | none :: ds => by simp [unparseOptList, length_unparseOptList s oq ds]
  | some d :: ds => by simp [unparseOptList, length_unparseOptList s oq ds]

theorem unparseArgs_eq (oq : Quote) (po as : List String) (va : Option String) (ko : List String)
    (kd : List (Option Expr)) (kw : Option String) (ds : List Expr) (hk : kd.length = ko.length) :
    unparseArgs oq (.mk po as va ko kd kw ds) =
      joinToks [comma] (posGroup po as (unparseList .lambdaDefault oq ds) ++ starGroup va ko ++
        kwGroup ko (unparseOptList .lambdaKwDefault oq kd) ++ kwargGroup kw) := by
  simp only [unparseArgs, posGroup, starGroup, kwGroup, kwargGroup, length_unparseOptList, hk, Nat.sub_self,
    List.replicate_zero, List.append_nil]
  cases va <;> cases kw <;> rfl

theorem isSliceTuple_tuple (es : List Expr) : isSliceTuple (.tuple es) = es.any isSlice := rfl

theorem attr_paren {t : List Tok} {v : Expr} (hv : D Lv.primary t v) :
    D Lv.primary (if isDigitToks t then lpar :: t ++ [rpar] else t) v := by
  split
  · exact D.up (D.group hv (by decide)) (by decide)
  · exact hv

/-- a child in an ordinary slot whose membership in `exprSlot` is decidable by evaluation -/
macro "kid " ih:ident s:term:max e:term:max h:term:max : term =>
  `(wrap_D (s := $s) (ordinary_of_wfE $e $h) (by decide) ($ih _ $e $h))

mutual
  theorem unparse_D (oq : Quote) : ∀ e, wfE e → D (kindLv (kindOf e)) (unparse oq e) e
    | .name id, _ => by simp only [unparse, kindOf]; exact D.name id
    | .const c, h => by
        simp only [wfE] at h
        simp only [unparse, kindOf]; exact const_D _ c h
    | .joinedStr vs, h => by
        simp only [wfE] at h
        simp only [unparse, kindOf]
        exact D.fstring (unparseJoined_D oq.flip vs h)
    | .formattedValue .., h => by simp [wfE] at h
    | .starred _, h => by simp [wfE] at h
    | .slice .., h => by simp [wfE] at h
    | .list es, h => by
        simp only [wfE] at h
        simp only [unparse, kindOf]
        exact D.list (unparseList_DElts .listElt oq (by decide) (by decide) Lv.bitOr (Nat.le_refl _) es h)
    | .set es, h => by
        simp only [wfE] at h
        simp only [unparse, kindOf]
        exact D.set (unparseList_DElts .setElt oq (by decide) (by decide) Lv.bitOr (Nat.le_refl _) es h.2) h.1
    | .tuple es, h => by
        simp only [wfE] at h
        simp only [unparse, kindOf]
        exact D.tuple (unparseList_DElts .tupleElt oq (by decide) (by decide) Lv.bitOr (Nat.le_refl _) es h)
    | .dict items, h => by
        simp only [wfE] at h
        simp only [unparse, kindOf]
        exact D.dict (unparseDictItems_D oq items h)
    | .attribute v a, h => by
        simp only [wfE] at h
        simp only [unparse, kindOf]
        have hv : D Lv.primary (wrap .attrValue (kindOf v) (unparse oq v)) v := kid unparse_D .attrValue v h
        exact D.attribute a (attr_paren hv)
    | .subscript v s, h => by
        simp only [wfE] at h
        have hv : D Lv.primary (wrap .subValue (kindOf v) (unparse oq v)) v := kid unparse_D .subValue v h.1
        have key : (∀ es, s = .tuple es → False) → wfSlice s →
            D Lv.primary (unparse oq (.subscript v s)) (.subscript v s) := by
          intro hs hw
          rw [unparse.eq_12 oq v s hs]
          have hst : isSliceTuple s = false := by
            cases s <;> first | rfl | exact absurd rfl (hs _)
          rw [hst]
          simp only [Bool.false_eq_true, if_false]
          cases s with
          | slice lo up st =>
            simp only [wfSlice] at hw
            simp only [kindOf, unparse, wrap_slice (s := .subSlice) (by decide)]
            exact D.subscript hv (DSlices.one
              (DSliceElt.slice (unparseOpt_D .sliceLower oq rfl (by decide) lo hw.1)
                (unparseOpt_D .sliceUpper oq rfl (by decide) up hw.2.1)
                (unparseOpt_D .sliceStep oq rfl (by decide) st hw.2.2)) (by intro v hv; cases hv))
          | tuple es => exact absurd rfl (hs es)
          | starred _ => simp [wfSlice] at hw
          | _ =>
            simp only [wfSlice] at hw
            exact D.subscript hv (DSlices.one (DSliceElt.plain (kid unparse_D .subSlice _ hw)) (by intro v hv; cases hv))
        cases s with
        | tuple es =>
          have hw := h.2
          simp only [wfSlice] at hw
          rw [unparse.eq_11, isSliceTuple_tuple]
          split
          · rename_i hany
            rw [if_pos hany] at hw
            have hne : es ≠ [] := by intro he; subst he; simp at hany
            have := D.subscript hv (DSlices.many (sliceElts_D oq es hw) hne)
            show D Lv.primary _ _
            simpa only [List.append_assoc] using this
          · rename_i hany
            rw [if_neg hany] at hw
            have hw' : wfE (.tuple es) := by simp only [wfE]; exact hw
            exact D.subscript hv (DSlices.one (DSliceElt.plain (kid unparse_D .subSlice (.tuple es) hw'))
              (by intro v hv; cases hv))
        | _ => exact key (by intro es he; cases he) h.2
    | .call f args kws, h => by
        simp only [wfE] at h
        simp only [unparse, kindOf]
        have hf : D Lv.primary (wrap .callFunc (kindOf f) (unparse oq f)) f := kid unparse_D .callFunc f h.1
        split
        · rename_i hc
          obtain ⟨h1, h2⟩ := hc
          have hk : kws = [] := by cases kws <;> simp_all
          subst hk
          match args, h1, h with
          | [a], _, h =>
            have := unparseList_DElts .callOnlyArg oq (by decide) (by decide) Lv.expression (by decide) [a] h.2.1
            simp only [unparseList] at this ⊢
            cases this with
            | cons ha _ =>
              simp only [joinToks]
              exact D.callOne hf ha
        · exact D.call hf
            (unparseList_DElts .callArg oq (by decide) (by decide) Lv.expression (by decide) args h.2.1)
            (unparseKeywords_D oq kws h.2.2)
    | .binOp l op r, h => by
        simp only [wfE] at h
        simp only [unparse, kindOf]
        rw [binOpText_eq]
        exact D.binOp op
          (wrap_D (s := .binL op) (ordinary_of_wfE l h.1) (by cases op <;> rfl) (unparse_D oq l h.1))
          (wrap_D (s := .binR op) (ordinary_of_wfE r h.2) (by cases op <;> rfl) (unparse_D oq r h.2))
    | .boolOp op vs, h => by
        simp only [wfE] at h
        simp only [unparse, kindOf]
        rw [boolOpTok_eq]
        exact D.boolOp op (unparseList_DList (.boolVal op) oq (by cases op <;> rfl) vs h.2) h.1
    | .unaryOp op v, h => by
        simp only [wfE] at h
        simp only [unparse, kindOf]
        rw [unaryOpTok_eq]
        have := wrap_D (s := .unary op) (ordinary_of_wfE v h) (by cases op <;> rfl) (unparse_D oq v h)
        rw [unary_slot_lv] at this
        exact D.unaryOp op this
    | .compare l ops cs, h => by
        simp only [wfE] at h
        simp only [unparse, kindOf]
        exact D.compare (kid unparse_D .cmpLeft l h.1) (unparseCmp_D oq ops cs h.2.1 h.2.2.2) h.2.2.1
    | .ifExp t b e, h => by
        simp only [wfE] at h
        simp only [unparse, kindOf]
        exact D.ifExp (kid unparse_D .ifBody b h.2.1) (kid unparse_D .ifTest t h.1) (kid unparse_D .ifOrelse e h.2.2)
    | .lambda as b, h => by
        simp only [wfE] at h
        simp only [unparse, kindOf]
        exact D.lambda (unparseArgs_D oq as h.1) (kid unparse_D .lambdaBody b h.2)
    | .namedExpr t v, h => by
        simp only [wfE] at h
        simp only [unparse, kindOf]
        exact D.namedExpr t (kid unparse_D .namedValue v h)
    | .listComp e gs, h => by
        simp only [wfE] at h
        simp only [unparse, kindOf]
        exact D.listComp (kid unparse_D .compElt e h.1) (unparseComps_D oq gs h.2.2) h.2.1
    | .setComp e gs, h => by
        simp only [wfE] at h
        simp only [unparse, kindOf]
        exact D.setComp (kid unparse_D .compElt e h.1) (unparseComps_D oq gs h.2.2) h.2.1
    | .generatorExp e gs, h => by
        simp only [wfE] at h
        simp only [unparse, kindOf]
        exact D.genexp (kid unparse_D .compElt e h.1) (unparseComps_D oq gs h.2.2) h.2.1
    | .dictComp k v gs, h => by
        simp only [wfE] at h
        simp only [unparse, kindOf]
        exact D.dictComp (kid unparse_D .compKey k h.1) (kid unparse_D .compValue v h.2.1)
          (unparseComps_D oq gs h.2.2.2) h.2.2.1
    | .yield_ none, _ => by simp only [unparse, kindOf]; exact D.yieldNone
    | .yield_ (some v), h => by
        simp only [wfE, wfO] at h
        simp only [unparse, kindOf]
        exact D.yieldSome (kid unparse_D .yieldValue v h)
    | .yieldFrom v, h => by
        simp only [wfE] at h
        simp only [unparse, kindOf]
        exact D.yieldFrom (kid unparse_D .yieldFromValue v h)
    | .await v, h => by
        simp only [wfE] at h
        simp only [unparse, kindOf]
        exact D.await (kid unparse_D .awaitValue v h)

  theorem unparseList_DList (s : Slot) (oq : Quote) (hs : s.exprSlot = true) :
      ∀ es, wfL es → DList (slotLv s) (unparseList s oq es) es
    | [], _ => by simp only [unparseList]; exact DList.nil
    | e :: es, h => by
        simp only [wfL] at h
        simp only [unparseList]
        exact DList.cons (wrap_D (ordinary_of_wfE e h.1) hs (unparse_D oq e h.1)) (unparseList_DList s oq hs es h.2)

  theorem unparseList_DElts (s : Slot) (oq : Quote) (hs : s ∈ starredSlots) (hse : s.exprSlot = true)
      (slv : Nat) (hslv : Lv.bitOr ≤ slv) :
      ∀ es, wfElts es → DElts (slotLv s) slv (unparseList s oq es) es
    | [], _ => by simp only [unparseList]; exact DElts.nil
    | e :: es, h => by
        cases e with
        | starred v =>
          simp only [wfElts] at h
          simp only [unparseList, kindOf, unparse, wrap_starred hs]
          exact DElts.cons (DElt.star (D.up (kid unparse_D .starredValue v h.1) hslv))
            (unparseList_DElts s oq hs hse slv hslv es h.2)
        | _ =>
          simp only [wfElts] at h
          simp only [unparseList]
          exact DElts.cons (DElt.plain (wrap_D (ordinary_of_wfE _ h.1) hse (unparse_D oq _ h.1)))
            (unparseList_DElts s oq hs hse slv hslv es h.2)

  theorem sliceElts_D (oq : Quote) : ∀ es, wfSliceElts es → DSliceElts (unparseList .subTupleElt oq es) es
    | [], _ => by simp only [unparseList]; exact DSliceElts.nil
    | e :: es, h => by
        cases e with
        | slice lo up st =>
          simp only [wfSliceElts] at h
          simp only [unparseList, kindOf, unparse, wrap_slice (s := .subTupleElt) (by decide)]
          exact DSliceElts.cons
            (DSliceElt.slice (unparseOpt_D .sliceLower oq rfl (by decide) lo h.1)
              (unparseOpt_D .sliceUpper oq rfl (by decide) up h.2.1)
              (unparseOpt_D .sliceStep oq rfl (by decide) st h.2.2.1))
            (sliceElts_D oq es h.2.2.2)
        | starred v =>
          simp only [wfSliceElts] at h
          simp only [unparseList, kindOf, unparse, wrap_starred (s := .subTupleElt) (by decide)]
          exact DSliceElts.cons (DSliceElt.star (D.up (kid unparse_D .starredValue v h.1) (by decide)))
            (sliceElts_D oq es h.2)
        | _ =>
          simp only [wfSliceElts] at h
          simp only [unparseList]
          exact DSliceElts.cons (DSliceElt.plain (kid unparse_D .subTupleElt _ h.1)) (sliceElts_D oq es h.2)

  theorem unparseOpt_D (s : Slot) (oq : Quote) (hl : slotLv s = Lv.expression) (hs : s.exprSlot = true) :
      ∀ o, wfO o → DOpt (unparseOpt s oq o) o
    | none, _ => by simp only [unparseOpt]; exact DOpt.none
    | some e, h => by
        simp only [wfO] at h
        simp only [unparseOpt]
        have := wrap_D (s := s) (ordinary_of_wfE e h) hs (unparse_D oq e h)
        rw [hl] at this
        exact DOpt.some this

  theorem unparseJoined_D (q : Quote) : ∀ vs, wfParts vs → DParts q (unparseJoined q vs) vs
    | [], _ => by simp only [unparseJoined]; exact DParts.nil
    | e :: vs, h => by
        cases e with
        | const c =>
          cases c with
          | str cps =>
            simp only [wfParts] at h
            simp only [unparseJoined]
            refine DParts.lit (fmidReads_escape q cps h.1) h.2.1 ?_ (unparseJoined_D q vs h.2.2.2)
            have := h.2.2.1
            cases vs with
            | nil => simp
            | cons w ws =>
              simp only [List.head?_cons, Option.map_some, ne_eq, Option.some.injEq] at this ⊢
              cases w <;> first | (rename_i c; cases c <;> simp_all [isConstStr, isConstStrE]) | simp_all [isConstStr, isConstStrE]
          | _ => simp [wfParts] at h
        | formattedValue v conv spec =>
          simp only [wfParts] at h
          simp only [unparseJoined, unparse, wrap_fv]
          have := DParts.field (q := q) conv
            (wrap_D (s := .fvValue) (ordinary_of_wfE v h.1) (by decide) (unparse_D q v h.1))
            h.2.1 (unparseSpec_D q spec h.2.2.1) (unparseJoined_D q vs h.2.2.2)
          simpa only [List.append_assoc] using this
        | _ => simp [wfParts] at h

  theorem unparseSpec_D (q : Quote) : ∀ o, wfSpec o → DSpec q (unparseSpec q o) o
    | none, _ => by simp only [unparseSpec]; exact DSpec.none
    | some e, h => by
        cases e with
        | joinedStr vs =>
          simp only [wfSpec] at h
          simp only [unparseSpec]
          exact DSpec.some (unparseJoined_D q vs h.1) (by rw [← specNoBrace_eq]; exact h.2)
        | _ => simp [wfSpec] at h

  theorem unparseDictItems_D (oq : Quote) : ∀ its, wfItems its → DItems (unparseDictItems oq its) its
    | [], _ => by simp only [unparseDictItems]; exact DItems.nil
    | .mk (some k) v :: its, h => by
        simp only [wfItems] at h
        simp only [unparseDictItems]
        exact DItems.kv (kid unparse_D .dictKey k h.1) (kid unparse_D .dictValue v h.2.1) (unparseDictItems_D oq its h.2.2)
    | .mk none v :: its, h => by
        simp only [wfItems] at h
        simp only [unparseDictItems]
        exact DItems.star (kid unparse_D .dictStarValue v h.1) (unparseDictItems_D oq its h.2)

  theorem unparseKeywords_D (oq : Quote) : ∀ ks, wfKws ks → DKws (unparseKeywords oq ks) ks
    | [], _ => by simp only [unparseKeywords]; exact DKws.nil
    | .mk (some a) v :: ks, h => by
        simp only [wfKws] at h
        simp only [unparseKeywords]
        exact DKws.kw a (kid unparse_D .callKwValue v h.1) (unparseKeywords_D oq ks h.2)
    | .mk none v :: ks, h => by
        simp only [wfKws] at h
        simp only [unparseKeywords]
        exact DKws.star (kid unparse_D .callStarKwValue v h.1) (unparseKeywords_D oq ks h.2)

  theorem unparseCmp_D (oq : Quote) : ∀ ops cs, ops.length = cs.length → wfL cs → DCmp (unparseCmp oq ops cs) ops cs
    | [], [], _, _ => by simp only [unparseCmp]; exact DCmp.nil
    | [], _ :: _, hl, _ => by simp at hl
    | _ :: _, [], hl, _ => by simp at hl
    | op :: ops, c :: cs, hl, h => by
        simp only [wfL] at h
        simp only [unparseCmp]
        rw [cmpOpToks_eq]
        exact DCmp.cons op (kid unparse_D .cmpRight c h.1) (unparseCmp_D oq ops cs (by simpa using hl) h.2)

  theorem unparseComps_D (oq : Quote) : ∀ gs, wfG gs → DComps (unparseComps oq gs) gs
    | [], _ => by simp only [unparseComps]; exact DComps.nil
    | .mk t i ifs a :: gs, h => by
        simp only [wfG] at h
        simp only [unparseComps]
        have ht : kindLv (kindOf t) ≤ Lv.primary := by
          have := h.1
          cases t <;> first | (simp [targetKind] at this; done) | (simp only [kindOf]; decide)
        exact DComps.cons a (wrap_D_of_le ht (unparse_D oq t h.2.1)) (kid unparse_D .compIter i h.2.2.1)
          (unparseIfs_D oq ifs h.2.2.2.1) (unparseComps_D oq gs h.2.2.2.2)

  theorem unparseIfs_D (oq : Quote) : ∀ cs, wfL cs → DIfs (unparseIfs oq cs) cs
    | [], _ => by simp only [unparseIfs]; exact DIfs.nil
    | c :: cs, h => by
        simp only [wfL] at h
        simp only [unparseIfs]
        exact DIfs.cons (kid unparse_D .compIf c h.1) (unparseIfs_D oq cs h.2)

  theorem unparseOptList_D (oq : Quote) : ∀ ds, wfOL ds → DOptList (unparseOptList .lambdaKwDefault oq ds) ds
    | [], _ => by simp only [unparseOptList]; exact DOptList.nil
    | none :: ds, h => by
        simp only [wfOL] at h
        simp only [unparseOptList]
        exact DOptList.none (unparseOptList_D oq ds h)
    | some d :: ds, h => by
        simp only [wfOL] at h
        simp only [unparseOptList]
        exact DOptList.some (kid unparse_D .lambdaKwDefault d h.1) (unparseOptList_D oq ds h.2)

  theorem unparseArgs_D (oq : Quote) : ∀ as, wfA as → DParams (unparseArgs oq as) as
    | .mk po as va ko kd kw ds, h => by
        simp only [wfA] at h
        rw [unparseArgs_eq oq po as va ko kd kw ds h.2.1]
        exact DParams.mk (unparseList_DList .lambdaDefault oq (by decide) ds h.2.2.1) (unparseOptList_D oq kd h.2.2.2) h.1 h.2.1
end

/-- the whole output of the custom unparser derives the tree, at the level `eval` mode expects -/
theorem unparseTop_D (e : Expr) (h : wfE e) : D Lv.expression (unparseTop e) e :=
  wrap_D (s := .top) (ordinary_of_wfE e h) (by decide) (unparse_D .dq e h)

end OlVerif
