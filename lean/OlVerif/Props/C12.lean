/-
  C12 -- the member protocol of the class lowering.  A class body is a sequence of stores into a
  namespace; the emitted code stores into a dict (`__ol_classnsp_*`) and then copies
  `dict.items()` onto the class with `setattr`.  Partial by nature: what `type.__new__`,
  `__prepare__`, `__set_name__` and `super()` do at run time is CPython behaviour observed by
  the check, not modelled.
-/
namespace OlVerif.C12

abbrev Ns := List (String × Nat)      -- an insertion-ordered mapping (Python dict), values abstract

/-- `d[k] = v` on an insertion-ordered dict: overwrite in place, or append -/
def dictSet : Ns → String → Nat → Ns
  | [], k, v => [(k, v)]
  | (k', v') :: rest, k, v => if k' = k then (k', v) :: rest else (k', v') :: dictSet rest k v

def runBody (ops : List (String × Nat)) : Ns := ops.foldl (fun d (k, v) => dictSet d k v) []

/-- `[setattr(C, k, v) for k, v in d.items()]` starting from the attributes the class already has -/
def copyOnto (attrs : Ns) (d : Ns) : Ns := d.foldl (fun a (k, v) => dictSet a k v) attrs

theorem dictSet_lookup_self (d : Ns) (k : String) (v : Nat) : (dictSet d k v).lookup k = some v := by
  induction d with
  | nil => simp [dictSet, List.lookup]
  | cons p rest ih =>
    obtain ⟨k', v'⟩ := p
    simp only [dictSet]
    split
    · rename_i h; subst h; simp [List.lookup]
    · rename_i h
      have : (k == k') = false := by simp; exact fun e => h e.symm
      simp [List.lookup, this, ih]

theorem dictSet_lookup_other (d : Ns) (k k2 : String) (v : Nat) (h : k2 ≠ k) :
    (dictSet d k v).lookup k2 = d.lookup k2 := by
  induction d with
  | nil =>
    have : (k2 == k) = false := by simp [h]
    simp [dictSet, List.lookup, this]
  | cons p rest ih =>
    obtain ⟨k', v'⟩ := p
    simp only [dictSet]
    split
    · rename_i h'; subst h'
      have : (k2 == k') = false := by simp [h]
      simp [List.lookup, this]
    · by_cases hk : (k2 == k') = true
      · simp [List.lookup, hk]
      · simp only [Bool.not_eq_true] at hk
        simp [List.lookup, hk, ih]

/-- copying a dict onto an empty class gives the class exactly the dict's bindings:
    every member name maps to its last stored value -/
theorem copyOnto_lookup (d attrs : Ns) (k : String) :
    (copyOnto attrs d).lookup k = match d.reverse.lookup k with
      | some v => some v
      | none => attrs.lookup k := by
  induction d generalizing attrs with
  | nil => simp [copyOnto, List.lookup]
  | cons p rest ih =>
    obtain ⟨k', v'⟩ := p
    simp only [copyOnto, List.foldl_cons] at *
    rw [ih]
    simp only [List.reverse_cons]
    by_cases hk : k = k'
    · subst hk
      cases h : rest.reverse.lookup k with
      | none =>
        have : (rest.reverse ++ [(k, v')]).lookup k = some v' := by
          rw [List.lookup_append]; simp [h, List.lookup]
        simp [this, dictSet_lookup_self]
      | some v =>
        have : (rest.reverse ++ [(k, v')]).lookup k = some v := by
          rw [List.lookup_append]; simp [h]
        simp [this]
    · cases h : rest.reverse.lookup k with
      | none =>
        have hne : (k == k') = false := by simp [hk]
        have : (rest.reverse ++ [(k', v')]).lookup k = none := by
          rw [List.lookup_append]; simp [h, List.lookup, hne]
        simp [this, dictSet_lookup_other _ _ _ _ hk]
      | some v =>
        have : (rest.reverse ++ [(k', v')]).lookup k = some v := by
          rw [List.lookup_append]; simp [h]
        simp [this]

/-- **Members**: after the `setattr` loop a fresh class has, for every name, the value the class
    body stored last under that name (what Python's own class namespace would hold). -/
theorem members (ops : List (String × Nat)) (k : String) :
    (copyOnto [] (runBody ops)).lookup k = (runBody ops).reverse.lookup k := by
  rw [copyOnto_lookup]
  cases (runBody ops).reverse.lookup k <;> simp [List.lookup]

end OlVerif.C12
