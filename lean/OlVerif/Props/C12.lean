import OlVerif.Lower.WfOutStmt
/-
  C12 -- the member protocol of the class lowering.  A class body is a sequence of stores into a
  namespace; the emitted code stores into a dict (`__ol_classnsp_*`) and then copies
  `dict.items()` onto the class with `setattr`.  Partial by nature: what `type.__new__`,
  `__prepare__`, `__set_name__` and `super()` do at run time is CPython behaviour observed by
  the check, not modelled.
-/
namespace OlVerif.C12

abbrev Ns := List (String × Nat)      -- an insertion-ordered mapping (Python dict), values abstract

/-- `d[k] = v` on an insertion-ordered dict: overwrite in place, or append -/
def dictSet : Ns → String → Nat → Ns
  | [], k, v => [(k, v)]
  | (k', v') :: rest, k, v => if k' = k then (k', v) :: rest else (k', v') :: dictSet rest k v

def runBody (ops : List (String × Nat)) : Ns := ops.foldl (fun d (k, v) => dictSet d k v) []

/-- `[setattr(C, k, v) for k, v in d.items()]` starting from the attributes the class already has -/
def copyOnto (attrs : Ns) (d : Ns) : Ns := d.foldl (fun a (k, v) => dictSet a k v) attrs

theorem dictSet_lookup_self (d : Ns) (k : String) (v : Nat) : (dictSet d k v).lookup k = some v := by
  induction d with
  | nil => simp [dictSet, List.lookup]
  | cons p rest ih =>
    obtain ⟨k', v'⟩ := p
    simp only [dictSet]
    split
    · rename_i h; subst h; simp [List.lookup]
    · rename_i h
      have : (k == k') = false := by simp; exact fun e => h e.symm
      simp [List.lookup, this, ih]

theorem dictSet_lookup_other (d : Ns) (k k2 : String) (v : Nat) (h : k2 ≠ k) :
    (dictSet d k v).lookup k2 = d.lookup k2 := by
  induction d with
  | nil =>
    have : (k2 == k) = false := by simp [h]
    simp [dictSet, List.lookup, this]
  | cons p rest ih =>
    obtain ⟨k', v'⟩ := p
    simp only [dictSet]
    split
    · rename_i h'; subst h'
      have : (k2 == k') = false := by simp [h]
      simp [List.lookup, this]
    · by_cases hk : (k2 == k') = true
      · simp [List.lookup, hk]
      · simp only [Bool.not_eq_true] at hk
        simp [List.lookup, hk, ih]

/-- copying a dict onto an empty class gives the class exactly the dict's bindings:
    every member name maps to its last stored value -/
theorem copyOnto_lookup (d attrs : Ns) (k : String) :
    (copyOnto attrs d).lookup k = match d.reverse.lookup k with
      | some v => some v
      | none => attrs.lookup k := by
  induction d generalizing attrs with
  | nil => simp [copyOnto, List.lookup]
  | cons p rest ih =>
    obtain ⟨k', v'⟩ := p
    simp only [copyOnto, List.foldl_cons] at *
    rw [ih]
    simp only [List.reverse_cons]
    by_cases hk : k = k'
    · subst hk
      cases h : rest.reverse.lookup k with
      | none =>
        have : (rest.reverse ++ [(k, v')]).lookup k = some v' := by
          rw [List.lookup_append]; simp [h, List.lookup]
        simp [this, dictSet_lookup_self]
      | some v =>
        have : (rest.reverse ++ [(k, v')]).lookup k = some v := by
          rw [List.lookup_append]; simp [h]
        simp [this]
    · cases h : rest.reverse.lookup k with
      | none =>
        have hne : (k == k') = false := by simp [hk]
        have : (rest.reverse ++ [(k', v')]).lookup k = none := by
          rw [List.lookup_append]; simp [h, List.lookup, hne]
        simp [this, dictSet_lookup_other _ _ _ _ hk]
      | some v =>
        have : (rest.reverse ++ [(k', v')]).lookup k = some v := by
          rw [List.lookup_append]; simp [h]
        simp [this]

/-- **Members**: after the `setattr` loop a fresh class has, for every name, the value the class
    body stored last under that name (what Python's own class namespace would hold). -/
theorem members (ops : List (String × Nat)) (k : String) :
    (copyOnto [] (runBody ops)).lookup k = (runBody ops).reverse.lookup k := by
  rw [copyOnto_lookup]
  cases (runBody ops).reverse.lookup k <;> simp [List.lookup]


/-! ### the shape of a lowered class statement (M-LOWER) -/

/-- **Class statement = create, load, fill (, decorate).**  Whenever a class statement is lowered:
    (1) the first emitted expression binds the class name - through the namespace of the scope the
    statement stands in - to a call of the metaclass (the last `metaclass=` keyword, else `type`)
    with the class name, the tuple of the transformed bases, an empty namespace and the remaining
    keywords in their order; (2) then the loader lambda, (3) then the copy loop; (4) with decorators,
    one more store of the class name.  Nothing else is emitted. -/
theorem class_shape (cx : Ctx) (name : String) (bases : List Expr) (kws : List Keyword) (body : List Stmt)
    (decos : List Expr) (lineno : Nat) (st : St) (es : List Expr) (st' : St)
    (h : lowerStmt cx (.classDef name bases kws body decos lineno) st = .ok (es, st')) :
    ∃ bases' metaE kws' create load fill,
      transfList cx.nsp [] bases = .ok bases' ∧ classKeywords cx.nsp kws = .ok (metaE, kws') ∧
      cx.nsp.getAssign name (.call (metaE.getD (.name "type")) [Expr.str name, .tuple bases', .dict []] kws') = .ok create ∧
      ((decos.isEmpty = true ∧ es = [create, load, fill]) ∨
       (decos.isEmpty = false ∧ ∃ again, es = [create, load, fill, again])) := by
  simp only [lowerStmt] at h
  obtain ⟨inner, hin, h⟩ := bind_ok h
  obtain ⟨⟨b', st1⟩, hb, h⟩ := bind_ok h
  obtain ⟨bases', hbs, h⟩ := bind_ok h
  obtain ⟨⟨metaE, kws'⟩, hk, h⟩ := bind_ok h
  obtain ⟨create, hcr, h⟩ := bind_ok h
  obtain ⟨self, hs, h⟩ := bind_ok h
  obtain ⟨self2, hs2, h⟩ := bind_ok h
  simp only [] at h
  by_cases hd : decos.isEmpty = true
  · rw [if_pos hd] at h
    cases pure_ok h
    exact ⟨bases', metaE, kws', create, _, _, hbs, hk, hcr, Or.inl ⟨hd, rfl⟩⟩
  · rw [if_neg hd] at h
    obtain ⟨self3, hs3, h⟩ := bind_ok h
    obtain ⟨decorated, hdd, h⟩ := bind_ok h
    obtain ⟨r, hr, h⟩ := bind_ok h
    cases pure_ok h
    exact ⟨bases', metaE, kws', create, _, _, hbs, hk, hcr, Or.inr ⟨by simpa using hd, _, rfl⟩⟩

/-- a member stored in a class body goes to the class dictionary (unless the name is declared
    global or lives in an enclosing function's dictionary), and is read back from it *at class level*
    (`bound = []`: not inside a lambda / comprehension) - whether or not some lambda or generator
    expression of the body reads the same name as a global.  (Before FIX-D70 this needed the extra
    hypothesis `x ∉ n.globalsInComp`: the hypothesis the proof asked for was the defect.) -/
theorem member_store_load (n : Nsp) (x : String) (v : Expr) (i : SymInfo) (hk : n.kind = .class_)
    (hs : n.sym.lookup x = some i) (hg : i.isDeclaredGlobal = false) (hgl : i.isGlobal = false)
    (ho : n.outerMap.lookup x = none) (hcl : x ≠ "__class__") :
    n.getAssign x v = .ok (dictSetitem n.dictName x v) ∧ n.getLoad [] x = .ok (dictLoad n.dictName x) := by
  simp [Nsp.getAssign, Nsp.getLoad, hk, hs, hg, hgl, ho, hcl]

/-- inside a lambda / comprehension of a class body (`bound` starts with the mark) a name that those inner
    scopes read as a global, and that none of them binds, is the plain global name: the class scope is skipped -/
theorem inner_scope_skips_class (n : Nsp) (x : String) (bound : List String) (hk : n.kind = .class_)
    (hb : (compMark :: bound).contains x = false) (hc : x ∈ n.globalsInComp) :
    n.getLoad (compMark :: bound) x = .ok (.name x) := by
  simp only [List.contains_eq_mem, decide_eq_false_iff_not] at hb
  simp [Nsp.getLoad, hk, hb, hc]

/-- the last `metaclass=` keyword wins and is removed from the keywords passed on; the other
    keywords keep their order -/
theorem metaclass_keyword (n : Nsp) (v : Expr) (ks : List Keyword) (m : Option Expr) (rest : List Keyword)
    (h : classKeywords n (.mk (some "metaclass") v :: ks) = .ok (m, rest)) :
    ∃ v' m0, transf n [] v = .ok v' ∧ classKeywords n ks = .ok (m0, rest) ∧ m = some (m0.getD v') := by
  simp only [classKeywords] at h
  obtain ⟨v', hv, h⟩ := bind_ok h
  obtain ⟨⟨m0, rest0⟩, hr, h⟩ := bind_ok h
  simp at h
  obtain ⟨rfl, rfl⟩ := h
  exact ⟨v', m0, hv, hr, rfl⟩

end OlVerif.C12
