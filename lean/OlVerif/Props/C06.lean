import OlVerif.Lower.Nsp
import OlVerif.Lower.Binder
import OlVerif.Lower.WfOut
namespace OlVerif.C06
/-- stores and loads of one name in one namespace use the same storage: a dict-stored name is
    read from the dict it is written to (function namespaces, no comprehension shadowing) -/
theorem load_store_same_dict_inner (n : Nsp) (name : String) (v : Expr) (s : SymInfo)
    (hk : n.kind = .function) (hs : n.sym.lookup name = some s) (hg : s.isDeclaredGlobal = false)
    (ho : n.outerMap.lookup name = none) (hi : name ∈ n.innerNonlocal) :
    n.getAssign name v = .ok (dictSetitem n.dictName name v) ∧ n.getLoad [] name = .ok (dictLoad n.dictName name) := by
  simp [Nsp.getAssign, Nsp.getLoad, hk, hs, hg, ho, hi]

theorem load_store_same_dict_outer (n : Nsp) (name d : String) (v : Expr) (s : SymInfo)
    (hk : n.kind = .function) (hs : n.sym.lookup name = some s) (hg : s.isDeclaredGlobal = false)
    (ho : n.outerMap.lookup name = some d) (hi : ¬ name ∈ n.innerNonlocal) :
    n.getAssign name v = .ok (dictSetitem d name v) ∧ n.getLoad [] name = .ok (dictLoad d name) := by
  simp [Nsp.getAssign, Nsp.getLoad, hk, hs, hg, ho, hi]

/-! ### captured variables live in the dictionary of the function CPython binds them in

Specification: `pyBinder x stack` - CPython's rule on its own tables (`is_local()`): the nearest
enclosing function scope in which `x` is local; classes are skipped.  `WalkOK x stack` - what
CPython guarantees on the way there (the name is in the intermediate tables and the code's
ownership test agrees with `is_local()` on it; evaluated on every symbol table of the corpus by
the correspondence check). -/

/-- **A free / nonlocal name goes to CPython's binder.**  Every (name ↦ dictionary) decision of a
    namespace built under `stack` names the dictionary of the function scope CPython binds the
    name in - whatever lies in between (classes, functions that rebind it through `nonlocal`,
    functions that only pass it through), at any depth. -/
theorem free_name_goes_to_binder (s : SymScope) (stack : Stack) (sup : Supply) (n : Nsp) (cl : List Claim)
    (sup' : Supply) (h : buildNsp stack sup s = .ok (n, cl, sup')) (x d : String) (hx : (x, d) ∈ n.outerMap)
    (hw : WalkOK x stack) : pyBinder x stack = some d := by
  obtain ⟨p, hp⟩ := outerMap_spec s stack sup n cl sup' h (x, d) hx
  exact pyBinder_of_findOwner x stack hw d p hp

/-- ... and conversely the walk succeeds whenever CPython has a binder -/
theorem binder_is_found (x : String) (stack : Stack) (hw : WalkOK x stack) (d : String)
    (h : pyBinder x stack = some d) : ∃ p, findOwner x stack = .ok (d, p) :=
  findOwner_eq_pyBinder x stack hw d h

/-- **The binder knows.**  If any namespace below `n` keeps a name in `n`'s dictionary, `n` lists
    it among its dictionary-stored names, hence (by `load_store_same_dict_inner`) reads and writes
    it in the same dictionary: one variable, one storage. -/
theorem binder_knows (s : SymScope) (stack : Stack) (sup : Supply) (n : Nsp) (cl : List Claim) (sup' : Supply)
    (h : buildNsp stack sup s = .ok (n, cl, sup')) (x : String)
    (hx : (x, n.dictName) ∈ Nsp.allOuter.allOuterL n.children) : x ∈ n.innerNonlocal :=
  owner_knows s stack sup n cl sup' h (x, n.dictName) hx rfl

/-- **No free name is left behind.**  Every free / nonlocal name of a function scope - other than
    a method's implicit `__class__` cell - gets a dictionary decision, wherever it stands in the
    symbol table's order (in particular after `__class__`, when the method also calls zero-argument
    `super()`); by `free_name_goes_to_binder` the decision is CPython's. -/
theorem every_free_name_is_resolved (s : SymScope) (stack : Stack) (sup : Supply) (n : Nsp) (cl : List Claim)
    (sup' : Supply) (h : buildNsp stack sup s = .ok (n, cl, sup')) (hk : s.kind = .function) (x : String)
    (hx : x ∈ s.frees ++ s.nonlocals) (hc : x ≠ "__class__") : ∃ d, (x, d) ∈ n.outerMap :=
  outerMap_complete s stack sup n cl sup' h hk x hx hc

/-- **Dictionaries are never confused**: the dictionary of a namespace differs from that of every
    enclosing scope (the name supply is injective), so a name kept in an enclosing function's
    dictionary cannot be taken for one of the namespace's own. -/
theorem dictionary_is_new (s : SymScope) (stack : Stack) (sup : Supply) (n : Nsp) (cl : List Claim) (sup' : Supply)
    (h : buildNsp stack sup s = .ok (n, cl, sup'))
    (hst : ∀ e ∈ stack, EarlierName e.2.2 sup.next) : ∀ e ∈ stack, e.2.2 ≠ n.dictName :=
  dict_new s stack sup n cl sup' h hst

/-- non-vacuity: `def f0(): x = 0; def f1(): nonlocal x; x = 1; class K: def f2(): return x` -
    from f2's point of view CPython's binder is f0 (through the class and through f1, which rebinds
    x via nonlocal), and the walk condition holds -/
def exLoc : SymInfo :=
  { name := "x", isAssigned := true, isParameter := false, isGlobal := false, isDeclaredGlobal := false,
    isNonlocal := false, isFree := false, isLocal := true }
def exNl : SymInfo :=
  { name := "x", isAssigned := true, isParameter := false, isGlobal := false, isDeclaredGlobal := false,
    isNonlocal := true, isFree := true, isLocal := false }
def exStack : Stack :=
  [(.class_, .mk "K" .class_ 3 [] [] [] [] [] [], "dK"), (.function, .mk "f1" .function 2 [exNl] ["x"] ["x"] [] [] [], "d1"),
   (.function, .mk "f0" .function 1 [exLoc] [] [] [] [] [], "d0"), (.module, default, "")]

example : pyBinder "x" exStack = some "d0" ∧ WalkOK "x" exStack := by
  refine ⟨by simp [exStack, exLoc, exNl, pyBinder, SymScope.lookup, SymScope.symbols], ?_⟩
  simp [exStack, exLoc, exNl, WalkOK, SymScope.lookup, SymScope.symbols, SymInfo.owns]

/-- **The first iterable of a comprehension is resolved where the comprehension stands**: whatever the
    comprehension's own variables are called, the first iterable of the lowered comprehension is the result of
    transforming the source's first iterable with the names bound *outside* (Python evaluates it in the
    enclosing scope; false of the code before FIX-D71, where `[x for x in x]` read its own variable). -/
theorem first_iterable_outside (n : Nsp) (bound : List String) (elt : Expr) (t i : Expr) (ifs : List Expr) (a : Bool)
    (gs : List Comp) (r : Expr) (h : transf n bound (.listComp elt (.mk t i ifs a :: gs)) = .ok r) :
    ∃ elt' t' i' ifs' gs', r = .listComp elt' (.mk t' i' ifs' a :: gs') ∧ transf n bound i = .ok i' := by
  simp only [transf] at h
  obtain ⟨names, _, h⟩ := bind_ok h
  obtain ⟨elt', _, h⟩ := bind_ok h
  obtain ⟨gens', hg, h⟩ := bind_ok h
  cases pure_ok h
  simp only [transfComps] at hg
  obtain ⟨t', _, hg⟩ := bind_ok hg
  obtain ⟨i', hi, hg⟩ := bind_ok hg
  obtain ⟨ifs', _, hg⟩ := bind_ok hg
  obtain ⟨gs', _, hg⟩ := bind_ok hg
  cases pure_ok hg
  exact ⟨elt', t', i', ifs', gs', rfl, hi⟩

/-- the other iterables, the conditions and the element see the comprehension's variables: a variable of the
    comprehension read there stays the plain name -/
theorem comprehension_variable_shadows (n : Nsp) (bound : List String) (x : String) (hx : x ∈ bound) :
    n.getLoad bound x = .ok (.name x) := by
  unfold Nsp.getLoad
  cases n.kind <;> simp [hx]

/-- non-vacuity: in a class body (`x` a member), `[x for x in x]` reads the member for its iterable -/
example :
    transf (.mk .class_ (.mk "K" .class_ 1 [exLoc] [] [] [] [] []) "" "" "d" [] [] [] false false [] []) []
        (.listComp (.name "x") [.mk (.name "x") (.name "x") [] false])
      = .ok (.listComp (.name "x") [.mk (.name "x") (dictLoad "d" "x") [] false]) := by
  simp [transf, transfComps, transfTarget, transfList, compsTargetNames, compTargetNames, Nsp.getLoad, compMark,
    Nsp.kind, Nsp.sym, Nsp.dictName, Nsp.outerMap, Nsp.globalsInComp,
    SymScope.lookup, SymScope.symbols, exLoc, bind, Except.bind, pure, Except.pure]

/-- **An assignment expression inside a lambda stays the lambda's own**: wherever the lambda is written
    (function, class, module), with `bound` carrying the lambda mark the walrus is copied as it is - it is never
    routed to a dictionary of the enclosing scope (false of the code before FIX-D74). -/
theorem walrus_in_lambda_is_local (n : Nsp) (bound : List String) (t : String) (v r : Expr)
    (hm : lamMark ∈ bound) (h : transf n bound (.namedExpr t v) = .ok r) :
    ∃ v', r = .namedExpr t v' ∧ transf n bound v = .ok v' := by
  simp only [transf] at h
  obtain ⟨v', hv, h⟩ := bind_ok h
  have : bound.contains lamMark = true := by simpa using hm
  rw [if_pos this] at h
  cases pure_ok h
  exact ⟨v', rfl, hv⟩

/-- ... and inside that lambda the name is read as the plain local, like a parameter: the body is transformed
    with the walrus targets of the body among the bound names -/
theorem lambda_body_binds_walrus_targets (n : Nsp) (bound : List String) (po as : List String) (va : Option String)
    (ko : List String) (kd : List (Option Expr)) (kw : Option String) (ds : List Expr) (body r : Expr)
    (h : transf n bound (.lambda (.mk po as va ko kd kw ds) body) = .ok r) :
    ∃ ds' kd' body', r = .lambda (.mk po as va ko kd' kw ds') body' ∧
      transf n (lamMark :: (Arguments.paramNames (.mk po as va ko kd kw ds) ++ walrusNames body ++ bound)) body = .ok body' ∧
      ∀ x ∈ walrusNames body,
        n.getLoad (lamMark :: (Arguments.paramNames (.mk po as va ko kd kw ds) ++ walrusNames body ++ bound)) x = .ok (.name x) := by
  simp only [transf] at h
  obtain ⟨ds', _, h⟩ := bind_ok h
  obtain ⟨kd', _, h⟩ := bind_ok h
  obtain ⟨body', hb, h⟩ := bind_ok h
  cases pure_ok h
  exact ⟨ds', kd', body', rfl, hb, fun x hx => comprehension_variable_shadows n _ x (by simp [hx])⟩

/-- non-vacuity: `lambda: (y := 2)` in a function whose `y` lives in its dictionary keeps the walrus -/
example : transf (.mk .function (.mk "f" .function 1 [{ exLoc with name := "y" }] [] [] [] [] []) "" "" "d" ["y"] [] [] false false [] []) []
      (.lambda (.mk [] [] none [] [] none []) (.namedExpr "y" (.const (.int 2))))
    = .ok (.lambda (.mk [] [] none [] [] none []) (.namedExpr "y" (.const (.int 2)))) := by
  simp [transf, transfList, transfOptList, Arguments.paramNames, walrusNames, lamMark, bind, Except.bind, pure, Except.pure]

end OlVerif.C06
