import OlVerif.Lower.Nsp
namespace OlVerif.C06
/-- stores and loads of one name in one namespace use the same storage: a dict-stored name is
    read from the dict it is written to (function namespaces, no comprehension shadowing) -/
theorem load_store_same_dict_inner (n : Nsp) (name : String) (v : Expr) (s : SymInfo)
    (hk : n.kind = .function) (hs : n.sym.lookup name = some s) (hg : s.isDeclaredGlobal = false)
    (ho : n.outerMap.lookup name = none) (hi : name ∈ n.innerNonlocal) :
    n.getAssign name v = .ok (dictSetitem n.dictName name v) ∧ n.getLoad [] name = .ok (dictLoad n.dictName name) := by
  simp [Nsp.getAssign, Nsp.getLoad, hk, hs, hg, ho, hi]

theorem load_store_same_dict_outer (n : Nsp) (name d : String) (v : Expr) (s : SymInfo)
    (hk : n.kind = .function) (hs : n.sym.lookup name = some s) (hg : s.isDeclaredGlobal = false)
    (ho : n.outerMap.lookup name = some d) (hi : ¬ name ∈ n.innerNonlocal) :
    n.getAssign name v = .ok (dictSetitem d name v) ∧ n.getLoad [] name = .ok (dictLoad d name) := by
  simp [Nsp.getAssign, Nsp.getLoad, hk, hs, hg, ho, hi]
end OlVerif.C06
