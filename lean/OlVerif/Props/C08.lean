import OlVerif.Lower.Stmt
namespace OlVerif.C08

/-- a statement of an unsupported kind is refused wherever the lowering reaches it -/
theorem reject_other_stmt (cx : Ctx) (k : String) (b : List (List Stmt)) (e : List Expr) (st : St) :
    lowerStmt cx (.other k b e) st = .error (refuse k) := by
  simp [lowerStmt]

end OlVerif.C08
