/-
  C08 -- property theorems (only): unsupported constructs are rejected at any depth.
  Helper lemmas and the induction are in OlVerif/Lower/Reject.lean.
-/
import OlVerif.Lower.Reject
namespace OlVerif.C08

/-- a statement of an unsupported kind is refused wherever the lowering reaches it -/
theorem reject_other_stmt (cx : Ctx) (k : String) (b : List (List Stmt)) (e : List Expr) (st : St) :
    lowerStmt cx (.other k b e) st = .error (refuse k) := by
  simp [lowerStmt]

/-- **Rejection at any depth.**  `badModule body` says: somewhere in the program, in a position the
    converter visits - nested to any depth in if / while / for / else / def / class bodies, in any
    expression position of any statement including defaults, decorators, bases, keywords, targets,
    comprehensions, lambdas and f-strings - there is a statement of an unsupported kind, a yield /
    yield from / await, a star import, a break / continue outside a loop, a return outside a
    function, a second starred name in one target pattern or a target of an unknown kind.  Then the
    conversion returns an error, for every configuration and every symbol table: it never answers
    with an expression. -/
theorem reject_at_any_depth (cfg : Cfg) (root : SymScope) (body : List Stmt) (h : badModule body = true) :
    ∃ err, lowerFull cfg root body = .error err :=
  lowerFull_err cfg root body h

/-- yield / yield from / await make the expression transformer fail from any depth of any expression -/
theorem reject_expr_at_any_depth (n : Nsp) (bound : List String) (e : Expr) (h : hasUnsup e = true) :
    ∃ err, transf n bound e = .error err :=
  transf_err n bound e h

/-! ### the same, stated over syntactic containment -/

/-- the statement blocks of a statement that the converter lowers -/
def blocks : Stmt → List (List Stmt)
  | .if_ _ b e => [b, e]
  | .while_ _ b e => [b, e]
  | .for_ _ _ b e => [b, e]
  | .functionDef _ _ b _ _ => [b]
  | .classDef _ _ _ b _ _ => [b]
  | _ => []

/-- `s` occurs in the block at a live position: not behind a direct break / continue / return of
    its own block (the converter cuts those tails, KF-D37), at any depth -/
inductive LiveIn (s : Stmt) : List Stmt → Prop
  | here (pre post : List Stmt) : (∀ p ∈ pre, p.isDirect = false) → LiveIn s (pre ++ s :: post)
  | inside (pre post : List Stmt) (t : Stmt) (blk : List Stmt) :
      (∀ p ∈ pre, p.isDirect = false) → blk ∈ blocks t → LiveIn s blk → LiveIn s (pre ++ t :: post)

/-- `s` occurs in the module: as one of its statements (all are converted) or live inside one -/
def InModule (s : Stmt) (body : List Stmt) : Prop :=
  ∃ pre t post, body = pre ++ t :: post ∧ (t = s ∨ ∃ blk ∈ blocks t, LiveIn s blk)

theorem badL_skip (il ifn : Bool) (rest : List Stmt) : ∀ (pre : List Stmt), (∀ p ∈ pre, p.isDirect = false) →
    badL il ifn rest = true → badL il ifn (pre ++ rest) = true
  | [], _, h => h
  | p :: pre, hp, h => by
      have h1 := hp p (by simp)
      have h2 := badL_skip il ifn rest pre (fun q hq => hp q (by simp [hq])) h
      simp [badL, h1, h2]

theorem badS_of_block (t : Stmt) (blk : List Stmt) (hb : blk ∈ blocks t)
    (h : ∀ il ifn, badL il ifn blk = true) : ∀ il ifn, badS il ifn t = true := by
  intro il ifn
  cases t <;> simp only [blocks, List.mem_cons, List.not_mem_nil, or_false] at hb
  all_goals (first | (rcases hb with rfl | rfl <;> simp [badS, h]) | (subst hb; simp [badS, h]))

/-- a statement that is refused in every context is refused from every live position -/
theorem badL_of_liveIn (s : Stmt) (hs : ∀ il ifn, badS il ifn s = true) :
    ∀ blk, LiveIn s blk → ∀ il ifn, badL il ifn blk = true := by
  intro blk hl
  induction hl with
  | here pre post hp =>
    intro il ifn
    exact badL_skip il ifn _ pre hp (by simp [badL, hs])
  | inside pre post t blk hp hb _ ih =>
    intro il ifn
    exact badL_skip il ifn _ pre hp (by simp [badL, badS_of_block t blk hb ih il ifn])

theorem badModule_of_mem (t : Stmt) (h : badS false false t = true) : ∀ (pre post : List Stmt),
    badModule (pre ++ t :: post) = true
  | [], post => by simp [badModule, h]
  | p :: pre, post => by simp [badModule, badModule_of_mem t h pre post]

/-- **Containment form.**  A statement that the converter refuses in every context - a statement
    of an unsupported kind, an expression statement / assignment / loop / def / class holding a
    yield or await, a star import, ... - makes the whole conversion fail wherever it occurs live in
    the module, at any nesting depth. -/
theorem reject_contained (cfg : Cfg) (root : SymScope) (body : List Stmt) (s : Stmt)
    (hs : ∀ il ifn, badS il ifn s = true) (hin : InModule s body) :
    ∃ err, lowerFull cfg root body = .error err := by
  obtain ⟨pre, t, post, rfl, ht⟩ := hin
  apply reject_at_any_depth
  apply badModule_of_mem
  rcases ht with rfl | ⟨blk, hb, hl⟩
  · exact hs false false
  · exact badS_of_block t blk hb (badL_of_liveIn s hs blk hl) false false

/-- unsupported statement kinds (try, with, raise, assert, del, match, async forms, type alias) -/
theorem reject_unsupported_stmt (cfg : Cfg) (root : SymScope) (body : List Stmt) (k : String)
    (b : List (List Stmt)) (e : List Expr) (hin : InModule (.other k b e) body) :
    ∃ err, lowerFull cfg root body = .error err :=
  reject_contained cfg root body _ (fun _ _ => by simp [badS]) hin

/-- an expression statement holding yield / yield from / await at any depth of its expression -/
theorem reject_yield_stmt (cfg : Cfg) (root : SymScope) (body : List Stmt) (v : Expr)
    (hv : hasUnsup v = true) (hin : InModule (.expr v) body) :
    ∃ err, lowerFull cfg root body = .error err :=
  reject_contained cfg root body _ (fun _ _ => by simp [badS, hv]) hin

/-- `from m import *` -/
theorem reject_star_import (cfg : Cfg) (root : SymScope) (body : List Stmt) (m : Option String) (lvl : Nat)
    (hin : InModule (.importFrom m [⟨"*", none⟩] lvl) body) :
    ∃ err, lowerFull cfg root body = .error err :=
  reject_contained cfg root body _ (fun _ _ => by simp [badS, starImport]) hin

/-- two starred names in one target pattern -/
theorem reject_two_stars (cfg : Cfg) (root : SymScope) (body : List Stmt) (a b : String) (v : Expr)
    (hin : InModule (.assign [.tuple [.starred (.name a), .starred (.name b)]] v) body) :
    ∃ err, lowerFull cfg root body = .error err :=
  reject_contained cfg root body _
    (fun _ _ => by simp [badS, badTargets, badTarget, badElts, Expr.isStarred]) hin

/-- illegal placements: module level, a function body outside a loop, a class body -/
theorem reject_break_module (cfg : Cfg) (root : SymScope) (pre post : List Stmt) :
    ∃ err, lowerFull cfg root (pre ++ .break_ :: post) = .error err :=
  reject_at_any_depth _ _ _ (badModule_of_mem _ (by simp [badS]) pre post)

theorem reject_return_module (cfg : Cfg) (root : SymScope) (pre post : List Stmt) (v : Option Expr) :
    ∃ err, lowerFull cfg root (pre ++ .return_ v :: post) = .error err :=
  reject_at_any_depth _ _ _ (badModule_of_mem _ (by simp [badS]) pre post)

theorem reject_continue_in_def (cfg : Cfg) (root : SymScope) (pre post fpre fpost : List Stmt)
    (name : String) (args : Arguments) (decos : List Expr) (lineno : Nat)
    (hp : ∀ p ∈ fpre, p.isDirect = false) :
    ∃ err, lowerFull cfg root
      (pre ++ .functionDef name args (fpre ++ .continue_ :: fpost) decos lineno :: post) = .error err :=
  reject_at_any_depth _ _ _ (badModule_of_mem _
    (by
      have h : badL false true (fpre ++ .continue_ :: fpost) = true :=
        badL_skip false true _ fpre hp (by simp [badL, badS])
      simp [badS, h]) pre post)

theorem reject_return_in_class (cfg : Cfg) (root : SymScope) (pre post cpre cpost : List Stmt)
    (name : String) (bases : List Expr) (kws : List Keyword) (decos : List Expr) (lineno : Nat) (v : Option Expr)
    (hp : ∀ p ∈ cpre, p.isDirect = false) :
    ∃ err, lowerFull cfg root
      (pre ++ .classDef name bases kws (cpre ++ .return_ v :: cpost) decos lineno :: post) = .error err :=
  reject_at_any_depth _ _ _ (badModule_of_mem _
    (by
      have h : badL false false (cpre ++ .return_ v :: cpost) = true :=
        badL_skip false false _ cpre hp (by simp [badL, badS])
      simp [badS, h]) pre post)

/-- non-vacuity: `while c: (def f(): for x in y: [(yield) for _ in z])`, three levels deep, is
    `InModule` and refused in every context -/
example : InModule (.expr (.listComp (.yield_ none) [.mk (.name "_") (.name "z") [] false]))
    [.pass_, .while_ (.name "c")
      [.functionDef "f" Arguments.empty
        [.for_ (.name "x") (.name "y")
          [.pass_, .expr (.listComp (.yield_ none) [.mk (.name "_") (.name "z") [] false])] []] [] 1] []] :=
  ⟨[.pass_], _, [], rfl, Or.inr ⟨_, List.mem_cons_self, LiveIn.inside [] [] _ _ (by simp) List.mem_cons_self
    (LiveIn.inside [] [] _ _ (by simp) List.mem_cons_self (LiveIn.here [.pass_] [] (by simp [Stmt.isDirect])))⟩⟩

/-! ### starred names in the target of a comprehension clause -/

/-- does a comprehension target hold a starred item (at any depth of nested tuple / list patterns)? -/
def targetHasStar : Expr → Bool
  | .starred _ => true
  | .tuple es => goL es
  | .list es => goL es
  | _ => false
where
  goL : List Expr → Bool
    | [] => false
    | e :: es => targetHasStar e || goL es

mutual
  theorem compTargetNames_star : ∀ (t : Expr), targetHasStar t = true → IsErr (compTargetNames t)
    | .starred _, _ => ⟨_, rfl⟩
    | .tuple es, h => by
        simp only [targetHasStar] at h; simp only [compTargetNames]; exact compTargetNames_go_star es h
    | .list es, h => by
        simp only [targetHasStar] at h; simp only [compTargetNames]; exact compTargetNames_go_star es h
    | .name _, h => by simp [targetHasStar] at h
    | .const _, h => by simp [targetHasStar] at h
    | .namedExpr .., h => by simp [targetHasStar] at h
    | .yield_ _, h => by simp [targetHasStar] at h
    | .yieldFrom _, h => by simp [targetHasStar] at h
    | .await _, h => by simp [targetHasStar] at h
    | .lambda .., h => by simp [targetHasStar] at h
    | .listComp .., h => by simp [targetHasStar] at h
    | .setComp .., h => by simp [targetHasStar] at h
    | .generatorExp .., h => by simp [targetHasStar] at h
    | .dictComp .., h => by simp [targetHasStar] at h
    | .joinedStr _, h => by simp [targetHasStar] at h
    | .formattedValue .., h => by simp [targetHasStar] at h
    | .set _, h => by simp [targetHasStar] at h
    | .dict _, h => by simp [targetHasStar] at h
    | .attribute .., h => by simp [targetHasStar] at h
    | .subscript .., h => by simp [targetHasStar] at h
    | .slice .., h => by simp [targetHasStar] at h
    | .call .., h => by simp [targetHasStar] at h
    | .binOp .., h => by simp [targetHasStar] at h
    | .boolOp .., h => by simp [targetHasStar] at h
    | .unaryOp .., h => by simp [targetHasStar] at h
    | .compare .., h => by simp [targetHasStar] at h
    | .ifExp .., h => by simp [targetHasStar] at h
  theorem compTargetNames_go_star : ∀ (es : List Expr), targetHasStar.goL es = true → IsErr (compTargetNames.go es)
    | [], h => by simp [targetHasStar.goL] at h
    | e :: es, h => by
        simp only [targetHasStar.goL, Bool.or_eq_true] at h
        simp only [compTargetNames.go]
        rcases h with h | h
        · exact isErr_bind_l (compTargetNames_star e h)
        · exact isErr_bind_r (fun _ => isErr_bind_l (compTargetNames_go_star es h))
end

/-- **A starred name in the target of a comprehension clause is refused** (one star or several, at any depth of
    the pattern, in the first clause): the conversion of the comprehension is an error, whatever the namespace -
    so in particular the two-star targets CPython itself refuses (`[a for *a, *b in rows]`) never come out as an
    expression. -/
theorem reject_starred_comprehension_target (n : Nsp) (bound : List String) (elt t i : Expr) (ifs : List Expr) (a : Bool)
    (gs : List Comp) (h : targetHasStar t = true) :
    ∃ err, transf n bound (.listComp elt (.mk t i ifs a :: gs)) = .error err := by
  simp only [transf, compsTargetNames]
  exact isErr_bind_l (isErr_bind_l (compTargetNames_star t h))

example : targetHasStar (.tuple [.starred (.name "a"), .starred (.name "b")]) = true := by decide

end OlVerif.C08
