import OlVerif.Lower.Stmt
namespace OlVerif.C07
/-- a chained assignment stores the value in a temporary first: the value expression occurs
    exactly once in the emitted list, at its head -/
theorem chained_value_once (cx : Ctx) (t1 t2 : Expr) (ts : List Expr) (value : Expr) (st : St)
    (es : List Expr) (st' : St)
    (h : lowerStmt cx (.assign (t1 :: t2 :: ts) value) st = .ok (es, st')) :
    ∃ tmp v rest, es = .namedExpr tmp v :: rest ∧ transf cx.nsp [] value = .ok v := by
  simp only [lowerStmt, bind, Except.bind] at h
  split at h
  · cases h
  · rename_i v hv
    simp only [List.length_cons, gt_iff_lt] at h
    have : 1 < ts.length + 1 + 1 := by omega
    simp only [this, decide_true, Bool.true_or, ↓reduceIte] at h
    split at h
    · cases h
    · rename_i r hr
      simp only [pure, Except.pure, Except.ok.injEq, Prod.mk.injEq] at h
      exact ⟨_, v, _, h.1.symm, hv⟩
end OlVerif.C07
