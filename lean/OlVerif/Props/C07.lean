import OlVerif.Lower.Stmt
import OlVerif.Order.Proof
namespace OlVerif.C07
/-- a chained assignment stores the value in a temporary first: the value expression occurs
    exactly once in the emitted list, at its head -/
theorem chained_value_once (cx : Ctx) (t1 t2 : Expr) (ts : List Expr) (value : Expr) (st : St)
    (es : List Expr) (st' : St)
    (h : lowerStmt cx (.assign (t1 :: t2 :: ts) value) st = .ok (es, st')) :
    ∃ tmp v rest, es = .namedExpr tmp v :: rest ∧ transf cx.nsp [] value = .ok v := by
  simp only [lowerStmt, bind, Except.bind] at h
  split at h
  · cases h
  · rename_i v hv
    simp only [List.length_cons, gt_iff_lt] at h
    have : 1 < ts.length + 1 + 1 := by omega
    simp only [this, decide_true, Bool.true_or, ↓reduceIte] at h
    split at h
    · cases h
    · rename_i r hr
      simp only [pure, Except.pure, Except.ok.injEq, Prod.mk.injEq] at h
      exact ⟨_, v, _, h.1.symm, hv⟩

/-! ### evaluation order of the lowered statements (M-ORDER, `Order/Trace.lean`)

`tr ρ e` is the list of probes the expression `e` evaluates, in Python's evaluation order, under
the truth-value oracle `ρ`; a probe `P k` stands for a source subexpression with a visible effect.
Each theorem: for a statement whose subexpressions are probes, converted at module level (names
are spelled as plain names), the expressions emitted for it - evaluated one after the other, which
is what both wrappers do (C01) - evaluate every probe exactly once and in the order Python's
reference semantics gives for the source statement; for every oracle, state and name supply. -/

/-- assignment: value, then targets left to right (objects before indexes before bounds),
    for any number of chained targets and any nesting of patterns -/
theorem assign_order (ρ : Expr → Bool) (cx : Ctx) (hn : cx.nsp.kind = .module) (ts : List Tgt) (hts : ts ≠ [])
    (v : Nat) (st : St) (es : List Expr) (st' : St)
    (h : lowerStmt cx (.assign (Tgt.toExprs ts) (P v)) st = .ok (es, st')) :
    trL ρ es = v :: Tgt.orders ts :=
  OlVerif.assign_order ρ cx hn ts hts v st es st' h

/-- annotated assignment with a value: value, then the target's parts -/
theorem annAssign_order (ρ : Expr → Bool) (cx : Ctx) (hn : cx.nsp.kind = .module) (t : Tgt) (ann : Expr)
    (v : Nat) (st : St) (es : List Expr) (st' : St)
    (h : lowerStmt cx (.annAssign t.toExpr ann (some (P v))) st = .ok (es, st')) :
    trL ρ es = v :: t.order :=
  OlVerif.annAssign_order ρ cx hn t ann v st es st' h

/-- augmented assignment, every operator, the three target kinds: each part exactly once, in
    Python's order, whichever of the in-place / fallback branches runs -/
theorem augAssign_order (ρ : Expr → Bool) (cx : Ctx) (hn : cx.nsp.kind = .module) (op : BinOpK) (v : Nat)
    (st : St) (es : List Expr) (st' : St) :
    (∀ x, lowerStmt cx (.augAssign (.name x) op (P v)) st = .ok (es, st') → trL ρ es = [v]) ∧
    (∀ o a, lowerStmt cx (.augAssign (.attribute (P o) a) op (P v)) st = .ok (es, st') → trL ρ es = [o, v]) ∧
    (∀ o i, lowerStmt cx (.augAssign (.subscript (P o) (P i)) op (P v)) st = .ok (es, st') → trL ρ es = [o, i, v]) :=
  ⟨fun x h => augAssign_name_order ρ cx hn x op v st es st' h,
   fun o a h => augAssign_attr_order ρ cx hn o a op v st es st' h,
   fun o i h => augAssign_sub_order ρ cx hn o i op v st es st' h⟩

/-- expression statement -/
theorem expr_order (ρ : Expr → Bool) (cx : Ctx) (hn : cx.nsp.kind = .module) (v : Nat) (st : St)
    (es : List Expr) (st' : St) (h : lowerStmt cx (.expr (P v)) st = .ok (es, st')) : trL ρ es = [v] :=
  OlVerif.expr_order ρ cx hn v st es st' h

/-- function definition: decorator expressions top to bottom, positional defaults, keyword-only
    defaults; nothing of the body; any signature, any number of decorators -/
theorem functionDef_order (ρ : Expr → Bool) (cx : Ctx) (hn : cx.nsp.kind = .module)
    (name : String) (po as : List String) (va : Option String) (ko : List String) (kd : List (Option Nat))
    (kw : Option String) (ds : List Nat) (body : List Stmt) (decos : List Nat) (lineno : Nat)
    (st : St) (es : List Expr) (st' : St)
    (h : lowerStmt cx (.functionDef name (.mk po as va ko (kd.map (Option.map P)) kw (ds.map P)) body (decos.map P) lineno) st
      = .ok (es, st')) :
    trL ρ es = decos ++ ds ++ optOrder kd :=
  OlVerif.functionDef_order ρ cx hn name po as va ko kd kw ds body decos lineno st es st' h

/-- both wrappers (list display, chain of calls) evaluate the statement expressions in order, each once -/
theorem wrapper_order (ρ : Expr → Bool) (cfg : Cfg) (es : List Expr) : tr ρ (wrapExprs cfg es) = trL ρ es :=
  tr_wrapExprs ρ cfg es

/-- **Whole programs**: for a module made of assignments (any targets), annotated and augmented
    assignments, expression statements and function definitions whose subexpressions are probes,
    the one expression `convert` returns evaluates every probe of the program exactly once, in
    Python's order - either wrapper, either if-style, every oracle, every symbol table. -/
theorem program_order (ρ : Expr → Bool) (cfg : Cfg) (root : SymScope) (ps : List PStmt) (hok : ∀ p ∈ ps, p.ok)
    (e : Expr) (h : lowerFull cfg root (ps.map PStmt.toStmt) = .ok e) : tr ρ e = PStmt.orders ps :=
  OlVerif.program_order ρ cfg root ps hok e h

/-- non-vacuity: `(a, (o1.x, *r)), d2[3:4] = v0` - the reference order is 0, 1, 2, 3, 4 -/
example : (0 : Nat) :: Tgt.orders [.tuple [.tuple [.name "a", .tuple [.attr 1 "x", .star (.name "r")]], .subSlice 2 (some 3) (some 4) none]]
    = [0, 1, 2, 3, 4] := by
  simp [Tgt.orders, Tgt.order]

end OlVerif.C07
