import OlVerif.Lower.Stmt
namespace OlVerif.C05
/-- placeholder obligation while the semantic development is being written:
    code after a direct interrupt is never part of a live block -/
theorem live_idem (b : List Stmt) : live (live b) = live b := by
  induction b with
  | nil => rfl
  | cons s ss ih =>
    simp only [live]
    split
    · simp [live, *]
    · simp [live, *]
end OlVerif.C05
