/-
  C05 -- break / continue / return / else are lowered with exact statement-level control flow.

  Property theorems over M-CTRL (OlVerif/Ctrl): the skeleton language, the lowering (pure
  two-pass formulation of `_iter_branch` and the loop / if / interrupt classes, compared as
  emitted trees with the converter on every generated skeleton), the source semantics `Exec`
  and the target semantics `Eval` (compared as event traces with CPython on every generated
  skeleton and schedule).  The helper lemmas and the induction are in OlVerif/Ctrl/*.lean.
-/
import OlVerif.Ctrl.Correct
import OlVerif.Ctrl.RunSound

namespace OlVerif.C05
open OlVerif.Ctrl

variable {σ : Type} {W : World σ}

/-- **Module and class-body placement.**  For *every* world - every interpretation of the simple
    statements, conditions, iterables and iterator steps as state transformers over any state
    type, hence every user state, every branch schedule, one-shot iterators, side-effecting
    conditions - every nesting of if / while / for / else / break / continue, both expression
    wrappers and both if-styles: whenever the source block runs from `s` to `s'`, the lowered
    code evaluates from `s` to `s'` (and the block ends normally).  With the state taken to be the
    trace of marker, condition, `iter()` and `next()` events this is the statement of the
    property: the same statements and conditions in the same order, nothing after a taken
    break / continue, else iff not broken, the iterable evaluated and `iter()` taken once, the
    iterator advanced exactly as often as in the source and never after a break. -/
theorem lower_correct_module (style : IfStyle) (wrap : Wrapper) (p : List Sk) (hwf : WfModule p)
    {s s' : σ} {sig : Sig} (h : Exec W (.block p) s s' sig) (fl : Flag → Bool) (rv : Option Nat) :
    sig = .normal ∧ ∃ fl' rv', Eval W (.seq (lowerModule style wrap p)) ⟨s, fl, rv⟩ ⟨s', fl', rv'⟩ true :=
  Ctrl.lower_correct_module style wrap p hwf h fl rv

/-- **Function placement.**  The same for function bodies with `return` at any nesting; in
    addition the return cell ends holding the value of the `return` that was taken, and keeps
    its initial `None` when none was. -/
theorem lower_correct_function (style : IfStyle) (wrap : Wrapper) (p : List Sk) (hwf : WfFunction p)
    {s s' : σ} {sig : Sig} (h : Exec W (.block p) s s' sig) (fl : Flag → Bool) :
    ∃ fl' rv', Eval W (.seq (lowerFn style wrap p)) ⟨s, fl, none⟩ ⟨s', fl', rv'⟩ true ∧
      rv' = (match sig with | .ret (some v) => some v | _ => none) ∧ (sig = .normal ∨ ∃ v, sig = .ret v) :=
  Ctrl.lower_correct_function style wrap p hwf h fl

/-- **The invariant behind both** (`block_inv` of DESIGN.md): for a statement / block lowered under
    any loop and function context whose flow-control flag is currently false (if it is read at
    all), the lowered code reaches the source's state, and afterwards: after normal completion
    the flags of the context are untouched; after `break` the innermost loop's break flag is set,
    its interrupt flag too if it is read, outer flags untouched; after `continue` likewise without
    the break flag; after `return` every enclosing loop's break flag is set, their interrupt flags
    and the function's return flag if read, and the return cell holds the value. -/
theorem block_inv {b : List Sk} {s s' : σ} {sig : Sig} (h : Exec W (.block b) s s' sig)
    (cx : Cx) (fl : Flag → Bool) (rv : Option Nat) (hg : GoodB cx b) (hinv : Inv cx fl) :
    ∃ fl' rv', Eval W (.seq (lowerB cx b)) ⟨s, fl, rv⟩ ⟨s', fl', rv'⟩ true ∧ Post cx sig fl rv fl' rv' :=
  lower_correct_item h cx fl rv hg hinv

/-- **A signal is only produced where the analysis pass sees its cause**: a block that ends by
    `break` / `continue` / `return` contains a live one (the soundness of the counters the
    implementation uses to decide where guards go). -/
theorem signal_has_cause {item : Item} {s s' : σ} {sig : Sig} (h : Exec W item s s' sig) : Poss item sig :=
  exec_poss h

/-- **The executable semantics run by the correspondence check are the semantics of the
    theorems**: whatever the fuel-bounded interpreters compute (and the check compares, event by
    event, with CPython's execution of the source and of the converter's output) is a derivation
    of the relational semantics above. -/
theorem run_source_sound (n : Nat) (item : Item) (s s' : σ) (sig : Sig)
    (h : runS W n item s = some (s', sig)) : Exec W item s s' sig :=
  runS_sound n item s s' sig h

theorem run_target_sound (n : Nat) (item : TItem) (s s' : TS σ) (b : Bool)
    (h : runT W n item s = some (s', b)) : Eval W item s s' b :=
  (runT_sound n item s s' b h).1

theorem live_idem (b : List Stmt) : live (live b) = live b := by
  induction b with
  | nil => rfl
  | cons s ss ih =>
    simp only [live]
    split
    · simp [live, *]
    · simp [live, *]

/-! non-vacuity: concrete skeletons meet the hypotheses -/

/-- `def f(): for x0 in it(0): (if c(1): return r(2)); m(3)  else: m(4)` with a while loop after it -/
example : WfFunction [.for_ 0 [.ite 1 [.ret (some 2)] [], .atom 3] [.atom 4], .whl 5 [.ite 6 [.brk] [.cont], .atom 7] []] := by
  unfold WfFunction; decide

example : WfModule [.whl 0 [.for_ 1 [.ite 2 [.brk] []] [.cont], .atom 3] [.atom 4]] := by unfold WfModule; decide

end OlVerif.C05
