/-
  C11 -- functions keep their signature.
-/
import OlVerif.Lower.Stmt
import OlVerif.Lower.WfOut

namespace OlVerif.C11

theorem transfList_length (n : Nsp) (b : List String) (es es' : List Expr)
    (h : transfList n b es = .ok es') : es'.length = es.length := by
  induction es generalizing es' with
  | nil => simp [transfList] at h; cases h; rfl
  | cons e es ih =>
    simp only [transfList, bind, Except.bind] at h
    split at h
    · cases h
    · split at h
      · cases h
      · rename_i es'' hes
        simp only [pure, Except.pure, Except.ok.injEq] at h
        subst h
        simp [ih es'' hes]

/-- which keyword-only parameters have a default is preserved (positions of the `None` holes) -/
theorem transfOptList_shape (n : Nsp) (b : List String) (ds ds' : List (Option Expr))
    (h : transfOptList n b ds = .ok ds') : ds'.map Option.isSome = ds.map Option.isSome := by
  induction ds generalizing ds' with
  | nil => simp [transfOptList] at h; cases h; rfl
  | cons d ds ih =>
    cases d with
    | none =>
      simp only [transfOptList, bind, Except.bind] at h
      split at h
      · cases h
      · rename_i r hr
        simp only [pure, Except.pure, Except.ok.injEq] at h
        subst h
        simp [ih r hr]
    | some e =>
      simp only [transfOptList, bind, Except.bind] at h
      split at h
      · cases h
      · split at h
        · cases h
        · rename_i r hr
          simp only [pure, Except.pure, Except.ok.injEq] at h
          subst h
          simp [ih r hr]

/-- **The copy of the parameter list loses nothing but annotations**: the emitted lambda has the
    same positional-only, positional-or-keyword and keyword-only parameter names in the same
    order, the same `*args` / `**kwargs`, as many positional defaults (so they attach to the same
    parameters), and a keyword-only default exactly where the source has one. -/
theorem sig (n : Nsp) (po as : List String) (va : Option String) (ko : List String)
    (kd : List (Option Expr)) (kw : Option String) (ds : List Expr) (a' : Arguments)
    (h : lowerFunctionHead n (.mk po as va ko kd kw ds) = .ok a') :
    ∃ kd' ds', a' = .mk po as va ko kd' kw ds' ∧ ds'.length = ds.length ∧
      kd'.map Option.isSome = kd.map Option.isSome := by
  simp only [lowerFunctionHead, bind, Except.bind] at h
  split at h
  · cases h
  · rename_i ds' hds
    split at h
    · cases h
    · rename_i kd' hkd
      simp only [pure, Except.pure, Except.ok.injEq] at h
      exact ⟨kd', ds', h.symm, transfList_length _ _ _ _ hds, transfOptList_shape _ _ _ _ hkd⟩

/-- **Decorators nest in source order**: the lowered form of `@d1 @d2 … @dk` around a function is
    `d1'(d2'(… dk'(f)))` with each `di'` the decorator expression transformed in the defining namespace - the last
    decorator is applied first, and (function position before argument, M-ORDER) `d1'` is evaluated first. -/
theorem decorators_nest (n : Nsp) : ∀ (ds : List Expr) (f r : Expr), applyDecorators n ds f = .ok r →
    ∃ ds', transfList n [] ds = .ok ds' ∧ r = ds'.foldr (fun d acc => Expr.call d [acc] []) f
  | [], f, r, h => by simp only [applyDecorators] at h; cases h; exact ⟨[], rfl, rfl⟩
  | d :: ds, f, r, h => by
      simp only [applyDecorators] at h
      obtain ⟨inner, hi, h⟩ := bind_ok h
      obtain ⟨d', hd, h⟩ := bind_ok h
      cases pure_ok h
      obtain ⟨ds', hds, rfl⟩ := decorators_nest n ds f inner hi
      refine ⟨d' :: ds', ?_, rfl⟩
      simp only [transfList, hd, hds]; rfl

/-- **A function definition lowers to one binding**: the name is bound, through the namespace of the scope the
    `def` stands in, to the decorators applied around a lambda whose parameter list is the one of `sig` and whose
    body is `[…, return value][-1]`; the implicit-classmethod hooks get their wrapper outside the decorators. -/
theorem def_shape (cx : Ctx) (name : String) (args : Arguments) (body : List Stmt) (decorators : List Expr) (lineno : Nat)
    (st st' : St) (es : List Expr) (h : lowerStmt cx (.functionDef name args body decorators lineno) st = .ok (es, st')) :
    ∃ inner args' items lam lam' e, findChild cx.nsp name lineno .function = .ok inner ∧
      lowerFunctionHead cx.nsp args = .ok args' ∧
      applyDecorators cx.nsp decorators (.lambda args' (.subscript (listWrapper (items ++ [.name inner.retvName])) Expr.neg1)) = .ok lam ∧
      (lam' = lam ∨ lam' = hookWrap lam) ∧ cx.nsp.getAssign name lam' = .ok e ∧ es = [e] := by
  simp only [lowerStmt] at h
  obtain ⟨inner, hin, h⟩ := bind_ok h
  obtain ⟨args', ha, h⟩ := bind_ok h
  obtain ⟨⟨b, st1⟩, _, h⟩ := bind_ok h
  obtain ⟨lam, hl, h⟩ := bind_ok h
  obtain ⟨e, he, h⟩ := bind_ok h
  cases pure_ok h
  refine ⟨inner, args', _, lam, _, e, hin, ha, hl, ?_, he, rfl⟩
  split <;> simp

end OlVerif.C11
