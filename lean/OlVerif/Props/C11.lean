/-
  C11 -- functions keep their signature.
-/
import OlVerif.Lower.Stmt

namespace OlVerif.C11

theorem transfList_length (n : Nsp) (b : List String) (es es' : List Expr)
    (h : transfList n b es = .ok es') : es'.length = es.length := by
  induction es generalizing es' with
  | nil => simp [transfList] at h; cases h; rfl
  | cons e es ih =>
    simp only [transfList, bind, Except.bind] at h
    split at h
    · cases h
    · split at h
      · cases h
      · rename_i es'' hes
        simp only [pure, Except.pure, Except.ok.injEq] at h
        subst h
        simp [ih es'' hes]

/-- which keyword-only parameters have a default is preserved (positions of the `None` holes) -/
theorem transfOptList_shape (n : Nsp) (b : List String) (ds ds' : List (Option Expr))
    (h : transfOptList n b ds = .ok ds') : ds'.map Option.isSome = ds.map Option.isSome := by
  induction ds generalizing ds' with
  | nil => simp [transfOptList] at h; cases h; rfl
  | cons d ds ih =>
    cases d with
    | none =>
      simp only [transfOptList, bind, Except.bind] at h
      split at h
      · cases h
      · rename_i r hr
        simp only [pure, Except.pure, Except.ok.injEq] at h
        subst h
        simp [ih r hr]
    | some e =>
      simp only [transfOptList, bind, Except.bind] at h
      split at h
      · cases h
      · split at h
        · cases h
        · rename_i r hr
          simp only [pure, Except.pure, Except.ok.injEq] at h
          subst h
          simp [ih r hr]

/-- **The copy of the parameter list loses nothing but annotations**: the emitted lambda has the
    same positional-only, positional-or-keyword and keyword-only parameter names in the same
    order, the same `*args` / `**kwargs`, as many positional defaults (so they attach to the same
    parameters), and a keyword-only default exactly where the source has one. -/
theorem sig (n : Nsp) (po as : List String) (va : Option String) (ko : List String)
    (kd : List (Option Expr)) (kw : Option String) (ds : List Expr) (a' : Arguments)
    (h : lowerFunctionHead n (.mk po as va ko kd kw ds) = .ok a') :
    ∃ kd' ds', a' = .mk po as va ko kd' kw ds' ∧ ds'.length = ds.length ∧
      kd'.map Option.isSome = kd.map Option.isSome := by
  simp only [lowerFunctionHead, bind, Except.bind] at h
  split at h
  · cases h
  · rename_i ds' hds
    split at h
    · cases h
    · rename_i kd' hkd
      simp only [pure, Except.pure, Except.ok.injEq] at h
      exact ⟨kd', ds', h.symm, transfList_length _ _ _ _ hds, transfOptList_shape _ _ _ _ hkd⟩

end OlVerif.C11
