/-
  C17 -- structural laws behind "no size the interpreter accepts for the source is refused for
  the translation".  Partial by nature: whether a given height exhausts the C stack or the
  recursion limit is run-time behaviour of the interpreter; the check measures that part.
-/
import OlVerif.Lower.Height

namespace OlVerif.C17

/-- **The list wrapper is flat**: wrapping `n` statement expressions adds one level, whatever `n`. -/
theorem list_flat (es : List Expr) : height (listWrapper es) = 1 + heightL es := by
  simp [listWrapper, height]

/-- **The chain-call wrapper nests one call per statement**: its height grows at least linearly
    with the number of consecutive statements.  (This is the proved reason for known finding
    KF-D51: recursive consumers of the output - `ast.unparse`, the compiler - overflow from a few
    hundred / thousand consecutive statements under `expr_wrapper=chain_call`.) -/
theorem chain_linear (e : Expr) (es : List Expr) :
    height (chainCallWrapper (e :: es)) ≥ es.length + 1 := by
  simp only [chainCallWrapper]
  have := height_foldl_call es (.call chainRunner [e] [])
  have h2 : height (Expr.call chainRunner [e] []) ≥ 1 := by simp [height]
  omega

/-- with the list wrapper, a block of `n` lowered simple statements has the height of its
    tallest statement plus one: independent of `n` -/
theorem wrap_list_height (cfg : Cfg) (h : cfg.wrapper = .list) (es : List Expr) :
    height (wrapExprs cfg es) ≤ 1 + heightL es := by
  unfold wrapExprs
  split
  · simp [Expr.ellipsis, height]
  · simp [heightL]
  · simp [h, listWrapper, height]

/-- non-vacuity / witness for the linear law: three statements, height ≥ 3 -/
example : height (chainCallWrapper [.name "a", .name "b", .name "c"]) ≥ 3 :=
  chain_linear (.name "a") [.name "b", .name "c"]

end OlVerif.C17
