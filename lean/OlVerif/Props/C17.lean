/-
  C17 -- structural laws behind "no size the interpreter accepts for the source is refused for
  the translation".  Partial by nature: whether a given height exhausts the C stack or the
  recursion limit is run-time behaviour of the interpreter; the check measures that part.
-/
import OlVerif.Lower.Height
import OlVerif.Lower.WfOut

namespace OlVerif.C17

/-- **The list wrapper is flat**: wrapping `n` statement expressions adds one level, whatever `n`. -/
theorem list_flat (es : List Expr) : height (listWrapper es) = 1 + heightL es := by
  simp [listWrapper, height]

/-- **The chain-call wrapper nests one call per statement**: its height grows at least linearly
    with the number of consecutive statements.  (This is the proved reason for known finding
    KF-D51: recursive consumers of the output - `ast.unparse`, the compiler - overflow from a few
    hundred / thousand consecutive statements under `expr_wrapper=chain_call`.) -/
theorem chain_linear (e : Expr) (es : List Expr) :
    height (chainCallWrapper (e :: es)) ≥ es.length + 1 := by
  simp only [chainCallWrapper]
  have := height_foldl_call es (.call chainRunner [e] [])
  have h2 : height (Expr.call chainRunner [e] []) ≥ 1 := by simp [height]
  omega

/-- with the list wrapper, a block of `n` lowered simple statements has the height of its
    tallest statement plus one: independent of `n` -/
theorem wrap_list_height (cfg : Cfg) (h : cfg.wrapper = .list) (es : List Expr) :
    height (wrapExprs cfg es) ≤ 1 + heightL es := by
  unfold wrapExprs
  split
  · simp [Expr.ellipsis, height]
  · simp [heightL]
  · simp [h, listWrapper, height]

/-- **A block nests once per guard, not once per statement.**  With the list wrapper, if every
    statement of a block lowers to expressions of height at most `H`, the lowered block has height at
    most `max H 2 + 2 · g`, where `g` counts the statements that may interrupt (break / continue /
    return somewhere inside) and are followed by further statements - whatever the length of the
    block: all statements after an interrupt share one guard. -/
theorem block_height (cx : Ctx) (hw : cx.cfg.wrapper = .list) (H : Nat) :
    ∀ (ss : List Stmt), (∀ s ∈ ss, ∀ st es st', lowerStmt cx s st = .ok (es, st') → heightL es ≤ H) →
    ∀ (st : St) (es : List Expr) (st' : St), lowerBlock cx ss st = .ok (es, st') →
      heightL es ≤ max H 2 + 2 * guardCount cx.flowKind ss
  | [], _, st, es, st', h => by simp only [lowerBlock] at h; cases h; simp [heightL]
  | s :: ss, hS, st, es, st', h => by
      simp only [lowerBlock] at h
      obtain ⟨⟨a, st1⟩, ha, h⟩ := bind_ok h
      have h1 := hS s (by simp) st a st1 ha
      simp only [guardCount]
      by_cases hd : (s.isDirect || ss.isEmpty) = true
      · rw [if_pos hd] at h ⊢
        cases pure_ok h
        dsimp only
        omega
      · rw [if_neg hd] at h ⊢
        by_cases hm : mayInt cx.flowKind s = true
        · rw [if_pos hm] at h ⊢
          obtain ⟨⟨rest, st2⟩, hr, h⟩ := bind_ok h
          cases pure_ok h
          have ih := block_height cx hw H ss (fun x hx => hS x (by simp [hx])) st1 rest st2 hr
          have hwr := wrap_list_height cx.cfg hw rest
          dsimp only
          rw [heightL_append]
          simp only [heightL, height, Expr.not_, Expr.ellipsis]
          omega
        · rw [if_neg hm] at h ⊢
          obtain ⟨⟨rest, st2⟩, hr, h⟩ := bind_ok h
          cases pure_ok h
          have ih := block_height cx hw H ss (fun x hx => hS x (by simp [hx])) st1 rest st2 hr
          dsimp only
          rw [heightL_append]
          omega

/-- in particular: a flat block in which one conditional interrupt is followed by any number of
    statements that cannot interrupt has height at most `max H 2 + 2` -/
theorem one_guard_for_the_rest (fk : FlowKind) (s : Stmt) (rest : List Stmt) (hs : s.isDirect = false)
    (hr : ∀ r ∈ rest, mayInt fk r = false ∧ r.isDirect = false) : guardCount fk (s :: rest) ≤ 1 := by
  have h0 : ∀ (l : List Stmt), (∀ r ∈ l, mayInt fk r = false ∧ r.isDirect = false) → guardCount fk l = 0 := by
    intro l
    induction l with
    | nil => intro _; rfl
    | cons r l ih =>
      intro hl
      simp only [guardCount]
      split
      · rfl
      · rw [(hl r (by simp)).1, ih (fun x hx => hl x (by simp [hx]))]; simp
  simp only [guardCount, hs, Bool.false_or]
  split
  · omega
  · rw [h0 rest hr]; split <;> omega

/-- non-vacuity / witness for the linear law: three statements, height ≥ 3 -/
example : height (chainCallWrapper [.name "a", .name "b", .name "c"]) ≥ 3 :=
  chain_linear (.name "a") [.name "b", .name "c"]

end OlVerif.C17
