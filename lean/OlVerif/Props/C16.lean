/-
  C16 -- the command line writes exactly the API result and validates options first.
  `cliEffects` (the order of effects of `python -m oneliner`) and the kind of option-name check
  are read off `oneliner/__main__.py` on every run (Gen/Config.lean).
-/
import OlVerif.Api.Model

namespace OlVerif.C16

/-- T obligation: the option name is validated by membership in the option list (not `hasattr`,
    which also accepts `__doc__` or `config_names`) -/
theorem name_check_is_membership : cliNameCheckIsMembership = true := by decide

/-- T obligation: in the extracted order of effects, options are validated before the input is
    read and before the output file is opened; the conversion happens before the output is opened -/
theorem effects_order :
    cliEffects.idxOf .validateAndSetOptions < cliEffects.idxOf .openWrite ∧
    cliEffects.idxOf .deprecatedUnparser < cliEffects.idxOf .openWrite ∧
    cliEffects.idxOf .readInput < cliEffects.idxOf .openWrite ∧
    cliEffects.idxOf .convert < cliEffects.idxOf .openWrite := by decide

/-- **An unknown option name, a malformed `-C` argument or an illegal value aborts before any
    output file is created or truncated**: the file system is unchanged and nothing is printed. -/
theorem no_write_on_bad_option (a : CliArgs) (fs : Fs) (w : String)
    (h : cliOptions a.cOpts defaultOpts = .error w) :
    (cli a fs).fs = fs ∧ (cli a fs).exit = .error w ∧ (cli a fs).written = none ∧ (cli a fs).stdout = none := by
  simp [cli, cliEffects, cliRun, h]

/-- the same for an illegal value of the deprecated `--unparser` flag -/
theorem no_write_on_bad_unparser (a : CliArgs) (fs : Fs) (o : Opts) (v : String)
    (h1 : cliOptions a.cOpts defaultOpts = .ok o) (h2 : a.unparserFlag = some v)
    (h3 : optLegal "unparser" v = false) :
    (cli a fs).fs = fs ∧ (cli a fs).written = none ∧ (cli a fs).stdout = none := by
  simp [cli, cliEffects, cliRun, h1, h2, h3]

/-- a missing input file aborts before the output is touched -/
theorem no_write_on_missing_input (a : CliArgs) (fs : Fs) (o : Opts)
    (h1 : cliOptions a.cOpts defaultOpts = .ok o) (h2 : a.unparserFlag = none)
    (h3 : fs.lookup a.input = none) :
    (cli a fs).fs = fs ∧ (cli a fs).written = none := by
  simp [cli, cliEffects, cliRun, h1, h2, h3]

/-- **With valid options the output file receives exactly the text of the library call for the
    file's contents and the options given** (and nothing is printed); without `-o` the text is
    printed and no file is written. -/
theorem writes_api (a : CliArgs) (fs : Fs) (o : Opts) (src out : String)
    (h1 : cliOptions a.cOpts defaultOpts = .ok o) (h2 : a.unparserFlag = none)
    (h3 : fs.lookup a.input = some src) (h4 : a.output = some out) :
    (cli a fs).written = some (out, o) ∧ (cli a fs).stdout = none ∧ (cli a fs).exit = .ok := by
  simp [cli, cliEffects, cliRun, h1, h2, h3, h4]

theorem prints_api (a : CliArgs) (fs : Fs) (o : Opts) (src : String)
    (h1 : cliOptions a.cOpts defaultOpts = .ok o) (h2 : a.unparserFlag = none)
    (h3 : fs.lookup a.input = some src) (h4 : a.output = none) :
    (cli a fs).written = none ∧ (cli a fs).stdout = some (0, o) ∧ (cli a fs).fs = fs := by
  simp [cli, cliEffects, cliRun, h1, h2, h3, h4]

/-- `-C` arguments are checked against the option table: an option outside it is an error -/
theorem unknown_name_rejected (name value : String) (rest : List String) (o : Opts)
    (hsplit : (name ++ "=" ++ value).splitOn "=" = [name, value])
    (h : optKnown name = false) :
    ∃ w, cliOptions ((name ++ "=" ++ value) :: rest) o = .error w := by
  simp [cliOptions, hsplit, h]

/-- non-vacuity: the hypotheses of `writes_api` are met by a concrete invocation -/
example : (cli { input := "a.py", output := some "o.txt", cOpts := [] } [("a.py", "x=1")]).written =
    some ("o.txt", defaultOpts) := by
  simp [cli, cliEffects, cliRun, cliOptions, List.lookup]

end OlVerif.C16
