/-
  C16 -- the command line writes exactly the API result and validates options first.
  `cliEffects` (the order of effects of `python -m oneliner`) and the kind of option-name check
  are read off `oneliner/__main__.py` on every run (Gen/Config.lean).
-/
import OlVerif.Api.Model

namespace OlVerif.C16

/-- T obligation: the option name is validated by membership in the option list (not `hasattr`,
    which also accepts `__doc__` or `config_names`) -/
theorem name_check_is_membership : cliNameCheckIsMembership = true := by decide

/-- T obligation: in the extracted order of effects, options are validated before the input is
    read and before the output file is opened; the conversion happens before the output is opened -/
theorem effects_order :
    cliEffects.idxOf .validateAndSetOptions < cliEffects.idxOf .openWrite ∧
    cliEffects.idxOf .deprecatedUnparser < cliEffects.idxOf .openWrite ∧
    cliEffects.idxOf .readInput < cliEffects.idxOf .openWrite ∧
    cliEffects.idxOf .convert < cliEffects.idxOf .openWrite := by decide

/-- **An unknown option name, a malformed `-C` argument or an illegal value aborts before any
    output file is created or truncated**: the file system is unchanged and nothing is printed. -/
theorem no_write_on_bad_option (a : CliArgs) (fs : Fs) (w : String)
    (h : cliOptions a.cOpts defaultOpts = .error w) :
    (cli a fs).fs = fs ∧ (cli a fs).exit = .error w ∧ (cli a fs).written = none ∧ (cli a fs).stdout = none := by
  simp [cli, cliEffects, cliRun, h]

/-- the same for an illegal value of the deprecated `--unparser` flag -/
theorem no_write_on_bad_unparser (a : CliArgs) (fs : Fs) (o : Opts) (v : String)
    (h1 : cliOptions a.cOpts defaultOpts = .ok o) (h2 : a.unparserFlag = some v)
    (h3 : optLegal "unparser" v = false) :
    (cli a fs).fs = fs ∧ (cli a fs).written = none ∧ (cli a fs).stdout = none := by
  simp [cli, cliEffects, cliRun, h1, h2, h3]

/-- a missing input file aborts before the output is touched -/
theorem no_write_on_missing_input (a : CliArgs) (fs : Fs) (o : Opts)
    (h1 : cliOptions a.cOpts defaultOpts = .ok o) (h2 : a.unparserFlag = none)
    (h3 : fs.lookup a.input = none) :
    (cli a fs).fs = fs ∧ (cli a fs).written = none := by
  simp [cli, cliEffects, cliRun, h1, h2, h3]

/-- **With valid options the output file receives exactly the text of the library call for the
    file's contents and the options given** (and nothing is printed); without `-o` the text is
    printed and no file is written. -/
theorem writes_api (a : CliArgs) (fs : Fs) (o : Opts) (src out : String)
    (h1 : cliOptions a.cOpts defaultOpts = .ok o) (h2 : a.unparserFlag = none)
    (h3 : fs.lookup a.input = some src) (h4 : a.output = some out) :
    (cli a fs).written = some (out, o) ∧ (cli a fs).stdout = none ∧ (cli a fs).exit = .ok := by
  simp [cli, cliEffects, cliRun, h1, h2, h3, h4]

theorem prints_api (a : CliArgs) (fs : Fs) (o : Opts) (src : String)
    (h1 : cliOptions a.cOpts defaultOpts = .ok o) (h2 : a.unparserFlag = none)
    (h3 : fs.lookup a.input = some src) (h4 : a.output = none) :
    (cli a fs).written = none ∧ (cli a fs).stdout = some (0, o) ∧ (cli a fs).fs = fs := by
  simp [cli, cliEffects, cliRun, h1, h2, h3, h4]

/-- `-C` arguments are checked against the option table: an option outside it is an error -/
theorem unknown_name_rejected (name value : String) (rest : List String) (o : Opts)
    (hsplit : (name ++ "=" ++ value).splitOn "=" = [name, value])
    (h : optKnown name = false) :
    ∃ w, cliOptions ((name ++ "=" ++ value) :: rest) o = .error w := by
  simp [cliOptions, hsplit, h]

/-- non-vacuity: the hypotheses of `writes_api` are met by a concrete invocation -/
example : (cli { input := "a.py", output := some "o.txt", cOpts := [] } [("a.py", "x=1")]).written =
    some ("o.txt", defaultOpts) := by
  simp [cli, cliEffects, cliRun, cliOptions, List.lookup]

theorem lookup_filter_ne (fs : Fs) (f out : String) (h : f ≠ out) :
    (fs.filter (·.1 != out)).lookup f = fs.lookup f := by
  induction fs with
  | nil => rfl
  | cons p rest ih =>
    obtain ⟨k, v⟩ := p
    by_cases hk : k = out
    · subst hk
      have : (f == k) = false := by simpa using h
      simp [List.filter, List.lookup, this, ih]
    · have hk' : (k != out) = true := by simpa using hk
      simp only [List.filter, hk', List.lookup]
      split <;> simp_all

theorem run_frame (a : CliArgs) (f : String) (hf : a.output ≠ some f) :
    ∀ (es : List CliEffect) (fs : Fs) (o : Opts), (cliRun a fs es o).fs.lookup f = fs.lookup f
  | [], fs, o => rfl
  | e :: es, fs, o => by
    have ih := run_frame a f hf es
    cases e <;> simp only [cliRun]
    all_goals (repeat' split) <;> (try rfl) <;> (try exact ih _ _)
    all_goals
      rename_i out hout
      rw [ih]
      have hne : f ≠ out := by intro e; subst e; exact hf hout
      have : (f == out) = false := by simpa using hne
      simp only [List.lookup, this]
      exact lookup_filter_ne fs f out hne

/-- **frame**: whatever the arguments and whatever happens (error or success), every file other than the `-o`
    target keeps its contents -/
theorem only_output_touched (a : CliArgs) (fs : Fs) (f : String) (hf : a.output ≠ some f) :
    (cli a fs).fs.lookup f = fs.lookup f := run_frame a f hf _ fs _

/-- the file system after a sequence of invocations -/
def cliSeq (fs : Fs) : List CliArgs → Fs
  | [] => fs
  | a :: as => cliSeq (cli a fs).fs as

/-- any sequence of invocations, failing or not, leaves a file that none of them names as `-o` as it was -/
theorem seq_frame (as : List CliArgs) (fs : Fs) (f : String) (h : ∀ a ∈ as, a.output ≠ some f) :
    (cliSeq fs as).lookup f = fs.lookup f := by
  induction as generalizing fs with
  | nil => rfl
  | cons a rest ih =>
    simp only [cliSeq]
    rw [ih _ (fun b hb => h b (by simp [hb])), only_output_touched a fs f (h a (by simp))]

end OlVerif.C16
