/-
  C10 -- conversion is a pure function of (source, options): property theorems over M-API.
  The storage kind of option values is *probed on the real class on every run*
  (Gen/Config.lean: `storagePerInstance`); with shared storage these theorems are false and
  their proofs fail.
-/
import OlVerif.Api.Model

namespace OlVerif.C10

/-- T obligation: option values live on the object they were set on -/
theorem storage_is_per_instance : storagePerInstance = true ∧ setRefusesIllegal = true := by decide

theorem getElem?_append_single {α} (l : List α) (d : α) (i : Nat) :
    (l ++ [d])[i]? = if l.length = i then some d else l[i]? := by
  by_cases h : i < l.length
  · have : l.length ≠ i := by omega
    simp [List.getElem?_append_left h, this]
  · by_cases h2 : l.length = i
    · subst h2; simp
    · have : l.length < i := by omega
      simp [h2]
      rw [List.getElem?_eq_none (by simp; omega), List.getElem?_eq_none (by omega)]

theorem apiRun_cons (s : ApiState) (op : ApiOp) (ops : List ApiOp) :
    (apiRun s (op :: ops)).1 = (apiRun (apiStep s op).1 ops).1 := by
  simp [apiRun]

/-- one step of the implementation model agrees with one step of the specification -/
theorem step_objs (s : ApiState) (op : ApiOp) (i : Nat) :
    (apiStep s op).1.objs.length = (specStep i op s.objs.length (s.objs[i]?)).1 ∧
    (apiStep s op).1.objs[i]? = (specStep i op s.objs.length (s.objs[i]?)).2 := by
  have hp := storage_is_per_instance.1
  cases op with
  | new =>
    simp only [apiStep, specStep, ApiState.defaults, hp, ↓reduceIte, List.length_append, List.length_cons,
      List.length_nil, Nat.zero_add, true_and]
    exact getElem?_append_single _ _ _
  | set j name value =>
    cases hj : s.objs[j]? with
    | none =>
      simp only [apiStep, specStep, hj, true_and]
      by_cases hji : j = i
      · subst hji; simp [hj]
      · simp [hji]
    | some o =>
      have hlt : j < s.objs.length := (List.getElem?_eq_some_iff.mp hj).1
      by_cases hl : optLegal name value = true
      · simp only [apiStep, specStep, hj, hl, Bool.not_true, Bool.false_eq_true, ↓reduceIte, hp, List.length_set,
          and_true, true_and]
        by_cases hji : j = i
        · subst hji
          have ho : s.objs[j] = o := (List.getElem?_eq_some_iff.mp hj).2
          simp [hlt, ho]
        · simp [hji, List.getElem?_set_ne hji]
      · simp [apiStep, specStep, hj, hl]
  | convert p j =>
    simp only [apiStep, specStep]
    cases s.read j <;> simp
  | convertDefault p => simp [apiStep, specStep]
  | reseed r => simp [apiStep, specStep]

/-- the invariant, generalised over the starting state: the store maps each object to its own
    last settings -/
theorem run_objs (ops : List ApiOp) (s : ApiState) (i : Nat) :
    (apiRun s ops).1.objs[i]? = ownSettings i ops s.objs.length (s.objs[i]?) := by
  induction ops generalizing s with
  | nil => simp [apiRun, ownSettings]
  | cons op ops ih =>
    rw [apiRun_cons, ih, ownSettings, (step_objs s op i).1, (step_objs s op i).2]

/-- **Purity.**  After *any* history of API actions - other objects created, options set on
    them, other programs converted, the random generator reseeded - converting program `p` with
    object `i` yields the text for exactly `i`'s own settings (defaults plus the legal `set`s
    addressed to `i`), and nothing else of the history. -/
theorem pure (ops : List ApiOp) (p i : Nat) :
    (apiStep (apiRun {} ops).1 (.convert p i)).2 =
      match ownSettings i ops 0 none with
      | some o => .text p o
      | none => .noSuchObject := by
  have h := run_objs ops {} i
  simp only [apiStep, ApiState.read, storage_is_per_instance.1, ↓reduceIte]
  rw [h]
  simp
  cases ownSettings i ops 0 none <;> simp

/-- **Defaults.**  A call that passes no options uses the default values, whatever was done to
    option objects before. -/
theorem default (ops : List ApiOp) (p : Nat) :
    (apiStep (apiRun {} ops).1 (.convertDefault p)).2 = .text p defaultOpts := by
  simp [apiStep, ApiState.defaults, storage_is_per_instance.1]

/-- non-vacuity: a history in which another object is modified between the creation and the
    use of object 0 -/
example : (apiStep (apiRun {} [.new, .new, .set 1 "unparser" "oneliner", .reseed 3, .convertDefault 7]).1
    (.convert 5 0)).2 = .text 5 defaultOpts := by decide

end OlVerif.C10
