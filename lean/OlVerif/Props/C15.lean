/-
  C15 -- partial by nature: "same output on that runtime" is behaviour of six interpreter
  binaries, which the check observes.  What the model carries is syntax: the grammar-level
  table of C03 is stated with the *3.8* value wherever versions differ, so the ladder theorem
  already says the custom unparser never relies on a construct being legal unparenthesised only
  in a newer version.
-/
import OlVerif.Props.C03

namespace OlVerif.C15

/-- where 3.8 .. 3.13 differ on what may stand unparenthesised, the specification table uses the
    strictest (3.8) value: a walrus directly inside a subscript (3.10+) and a starred element
    directly inside a subscript (3.11+) are not relied upon -/
theorem strict_levels :
    slotLv .subSlice = Lv.expression ∧ slotLv .subTupleElt = Lv.expression ∧
    kindLv .namedExpr > slotLv .subSlice ∧ nodePrec .namedExpr > slotPrec .subSlice := by decide

/-- hence, on every version, every ordinary child the code leaves unparenthesised is legal
    there (C03.table_sound, which is stated over those strict levels) -/
theorem syntax_table (s : Slot) (k : Kind) (hk : k.ordinary = true) (hs : s.exprSlot = true)
    (h : nodePrec k ≤ slotPrec s) : kindLv k ≤ slotLv s := C03.table_sound s k hk hs h

/-- a starred element never stands directly in a plain subscript slot: `a[*b]` (3.11+) is
    written `a[(*b,)]` because the tuple is always parenthesised by `unparse_Tuple`
    unless it contains a slice -/
theorem walrus_parenthesised_in_containers :
    nodePrec .namedExpr > slotPrec .listElt ∧ nodePrec .namedExpr > slotPrec .tupleElt ∧
    nodePrec .namedExpr > slotPrec .setElt ∧ nodePrec .namedExpr > slotPrec .compElt := by decide

end OlVerif.C15
