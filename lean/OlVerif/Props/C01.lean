import OlVerif.Lower.Stmt
import OlVerif.Order.Proof
import OlVerif.Sem.Module
namespace OlVerif.C01

/-- the arguments of a chain of calls `f(a0)(a1)...(an)`, in evaluation order -/
def chainArgs : Expr → List Expr
  | .call f [a] [] => chainArgs f ++ [a]
  | _ => []

theorem chainArgs_foldl (es : List Expr) (acc : Expr) :
    chainArgs (es.foldl (fun acc x => .call acc [x] []) acc) = chainArgs acc ++ es := by
  induction es generalizing acc with
  | nil => simp
  | cons e es ih => simp [List.foldl, ih, chainArgs]

/-- **Every lowered statement is evaluated exactly once, in order, by the chain-call wrapper**:
    the wrapper is the call chain `runner(e0)(e1)...(en)` whose arguments are exactly the
    statement expressions, none dropped, duplicated or reordered. -/
theorem chain_call_keeps_all (e : Expr) (es : List Expr) :
    chainArgs (chainCallWrapper (e :: es)) = e :: es := by
  simp [chainCallWrapper, chainArgs_foldl, chainArgs, chainRunner]

/-- the list wrapper is the list display of exactly the statement expressions -/
theorem list_keeps_all (es : List Expr) : listWrapper es = .list es := rfl


/-- the same in the evaluation-order model (M-ORDER): whichever wrapper is configured, evaluating the
    one expression evaluates the statement expressions in order, each once (for every oracle) -/
theorem wrapper_evaluates_in_order (ρ : Expr → Bool) (cfg : Cfg) (es : List Expr) :
    tr ρ (wrapExprs cfg es) = trL ρ es :=
  tr_wrapExprs ρ cfg es

/-- **Straight-line programs keep their observable effects, in order.**  For a module made of
    assignments (any chain of targets, any nesting of patterns), annotated and augmented assignments,
    expression statements and function definitions whose subexpressions are effectful probes, the
    converted expression performs every effect of the program exactly once and in the order the
    script performs them (C07.program_order); control flow around such statements is C05's
    `lower_correct_module` / `lower_correct_function`. -/
theorem straight_line_effects (ρ : Expr → Bool) (cfg : Cfg) (root : SymScope) (ps : List PStmt)
    (hok : ∀ p ∈ ps, p.ok) (e : Expr) (h : lowerFull cfg root (ps.map PStmt.toStmt) = .ok e) :
    tr ρ e = PStmt.orders ps :=
  program_order ρ cfg root ps hok e h


/-! ### value-level semantics (M-EVAL) -/
open OlVerif.Sem in
/-- **Straight-line module code means the same after conversion, for every world.**  Take any user
    state and value types, any meaning of the expression forms M-EVAL does not fix (calls, operators,
    lambdas, comprehensions, ... - `W.eval`) and any meaning of the primitive operations (binding a
    global name, attribute and item access, the in-place operators).  For a module made of expression
    statements, `pass`, `global`, assignments with any number of name / attribute / subscript
    targets and augmented assignments on such targets, whose expressions do not mention `__ol_`
    names: whenever the script runs from user state `u` to `u'`, the converted expression evaluates
    from `u` to `u'` - under both wrappers, with the helper variables it creates (`t'`) kept apart
    from the user state.  Control flow around such statements is C05's theorem, functions / classes /
    imports are not covered at value level. -/
theorem module_straightline_semantics {U V : Type} (W : World U V) (cfg : Cfg) (root : SymScope) (body : List Stmt)
    (hs : ∀ s ∈ body, SimpleS s) (e : Expr) (h : lowerFull cfg root body = .ok e) {u u' : U} (hx : ExecB W body u u') :
    ∃ v t', Ev W e u [] v u' t' :=
  module_sim W cfg root body hs e h hx

open OlVerif.Sem in
/-- an expression free of helper names neither reads nor writes helper variables (proved, not assumed) -/
theorem helper_variables_are_invisible {U V : Type} (W : World U V) {e : Expr} {u u' : U} {t t' : T V} {v : V}
    (h : Ev W e u t v u' t') (hc : Clean e) : t' = t ∧ ∀ t2 : T V, Ev W e u t2 v u' t2 :=
  frame W h hc

/-- at module level the expression transformer is the identity -/
theorem module_level_expressions_unchanged (n : Nsp) (hn : n.kind = .module) (b : List String) (e e' : Expr)
    (h : transf n b e = .ok e') : e' = e :=
  transf_module_id n hn b e e' h

namespace Ex
open OlVerif.Sem
/-- non-vacuity: integers, globals as an association list, `+=` on integers -/
def W : World (List (String × Int)) Int where
  eval := fun e u => match e with
    | .name x => (u.lookup x).map (·, u)
    | _ => none
  const := fun c => match c with | .int n => n | _ => 0
  store := fun x v u => (x, v) :: u
  getattr := fun _ _ _ => none
  setattr := fun _ _ _ _ => none
  getitem := fun _ _ _ => none
  setitem := fun _ _ _ _ => none
  iop := fun op a b u => match op with | .add => some (a + b, u) | _ => none
  listOf := fun _ => 0
  noneV := 0
  runner := 0

/-- `x = 1; x += 2` -/
def prog : List Stmt := [.assign [.name "x"] (.const (.int 1)), .augAssign (.name "x") .add (.const (.int 2))]

theorem prog_simple : ∀ s ∈ prog, SimpleS s := by
  intro s hs
  simp only [prog, List.mem_cons, List.mem_nil_iff, or_false] at hs
  rcases hs with rfl | rfl
  · exact .assign _ _ (by simp) (fun t ht => by simp at ht; subst ht; exact .name "x") (.const _)
  · exact .aug _ _ _ (.name "x") (.const _)

theorem prog_runs : ExecB W prog [] [("x", 3), ("x", 1)] :=
  .cons (.assign _ _ (.const _ _ _) (.cons (.name "x" _ _ (by decide)) (.nil _ _)))
    (.cons (.augName "x" .add _ (by decide) (.user _ _ (by decide) rfl) (.const _ _ _) rfl) (.nil _))

example : ∃ e, lowerFull {} default prog = .ok e ∧ ∃ v t', Ev W e [] [] v [("x", 3), ("x", 1)] t' :=
  ⟨_, rfl, module_straightline_semantics W {} default prog prog_simple _ rfl prog_runs⟩
end Ex

end OlVerif.C01
