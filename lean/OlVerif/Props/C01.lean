import OlVerif.Lower.Stmt
import OlVerif.Order.Proof
import OlVerif.Sem.Module
import OlVerif.Sem.Decide
namespace OlVerif.C01

/-- the arguments of a chain of calls `f(a0)(a1)...(an)`, in evaluation order -/
def chainArgs : Expr → List Expr
  | .call f [a] [] => chainArgs f ++ [a]
  | _ => []

theorem chainArgs_foldl (es : List Expr) (acc : Expr) :
    chainArgs (es.foldl (fun acc x => .call acc [x] []) acc) = chainArgs acc ++ es := by
  induction es generalizing acc with
  | nil => simp
  | cons e es ih => simp [List.foldl, ih, chainArgs]

/-- **Every lowered statement is evaluated exactly once, in order, by the chain-call wrapper**:
    the wrapper is the call chain `runner(e0)(e1)...(en)` whose arguments are exactly the
    statement expressions, none dropped, duplicated or reordered. -/
theorem chain_call_keeps_all (e : Expr) (es : List Expr) :
    chainArgs (chainCallWrapper (e :: es)) = e :: es := by
  simp [chainCallWrapper, chainArgs_foldl, chainArgs, chainRunner]

/-- the list wrapper is the list display of exactly the statement expressions -/
theorem list_keeps_all (es : List Expr) : listWrapper es = .list es := rfl


/-- the same in the evaluation-order model (M-ORDER): whichever wrapper is configured, evaluating the
    one expression evaluates the statement expressions in order, each once (for every oracle) -/
theorem wrapper_evaluates_in_order (ρ : Expr → Bool) (cfg : Cfg) (es : List Expr) :
    tr ρ (wrapExprs cfg es) = trL ρ es :=
  tr_wrapExprs ρ cfg es

/-- **Straight-line programs keep their observable effects, in order.**  For a module made of
    assignments (any chain of targets, any nesting of patterns), annotated and augmented assignments,
    expression statements and function definitions whose subexpressions are effectful probes, the
    converted expression performs every effect of the program exactly once and in the order the
    script performs them (C07.program_order); control flow around such statements is C05's
    `lower_correct_module` / `lower_correct_function`. -/
theorem straight_line_effects (ρ : Expr → Bool) (cfg : Cfg) (root : SymScope) (ps : List PStmt)
    (hok : ∀ p ∈ ps, p.ok) (e : Expr) (h : lowerFull cfg root (ps.map PStmt.toStmt) = .ok e) :
    tr ρ e = PStmt.orders ps :=
  program_order ρ cfg root ps hok e h


/-! ### value-level semantics (M-EVAL) -/
open OlVerif.Sem in
/-- **Module code of the fragment means the same after conversion, for every world.**  Take any user
    state and value types, any meaning of the expression forms M-EVAL does not fix (calls, operators,
    lambdas, comprehensions, ... - `W.eval`), any meaning of the primitive operations (binding a
    global name, attribute and item access, the in-place operators) and of the truth test of user
    values (`W.truthy`, which may run user code and may fail); a non-empty list is true, and taking
    the truth value of an object again right away repeats the answer and changes nothing (`Lawful`); indexing, slicing and iterating
    a tuple built from items give the items (`LawfulSeq`).  For a module made of expression statements, `pass`, `global`, assignments
    with any number of targets - names, attributes, subscripts, tuple / list patterns of such targets
    with at most one starred item, nested to any depth -, augmented assignments on name / attribute / subscript targets
    and `if` / `elif` / `else` and `for` ... `else` (without break / continue) over such statements at any
    nesting, whose expressions do not mention
    `__ol_` names: whenever the script runs from user state `u` to `u'`, the converted expression
    evaluates from `u` to `u'` - under both wrappers and both if-styles, with the helper variables it
    creates (`t'`) kept apart from the user state.  In particular the truth value of a statement's
    value is never taken (it may be undefined), that of a condition only where the script takes
    it, possibly again right away (under `short_circuit`; KF-D61b is the world where that shows), and an
    iterator is advanced exactly as the `for` statement advances it.  `while` is the next theorem; break / continue / return are C05's (trace level);
    functions, classes and imports are not covered at value level. -/
theorem module_straightline_semantics {U V : Type} (W : World U V) (hW : Lawful W) (hS : LawfulSeq W) (cfg : Cfg) (root : SymScope)
    (body : List Stmt) (hs : ∀ s ∈ body, SimpleS false s) (e : Expr) (h : lowerFull cfg root body = .ok e) {u u' : U}
    (hx : ExecB W body u u') : ∃ v t', Ev W e u [] v u' t' :=
  module_sim W hW hS cfg root body hs e h hx

open OlVerif.Sem in
/-- **The same with `while`** (with `else`, without break / continue; the test free of assignment expressions,
    which CPython refuses where the lowering puts it: KF-D16).  Lowering a `while` asks for the helper import
    `itertools := __import__('itertools')` in front of the program - a name the property allows the converted
    program to add; its effect is not modelled (the rule for the takewhile comprehension assumes that
    `itertools` names the module): the converted expression is the wrapper around the lowered statements,
    possibly preceded by that one import, and the lowered statements take the user state where the script
    takes it. -/
theorem module_with_while_semantics {U V : Type} (W : World U V) (hW : Lawful W) (hS : LawfulSeq W) (cfg : Cfg) (root : SymScope)
    (body : List Stmt) (hs : ∀ s ∈ body, SimpleS true s) (e : Expr) (h : lowerFull cfg root body = .ok e) {u u' : U}
    (hx : ExecB W body u u') :
    ∃ b t', (e = wrapExprs cfg b ∨ e = wrapExprs cfg (itertoolsImport :: b)) ∧ Seq W b u [] u' t' :=
  module_sim_while W hW hS cfg root body hs e h hx

open OlVerif.Sem in
/-- the hypothesis is decidable: the correspondence check evaluates it on real programs -/
theorem fragment_decidable_sound (body : List Stmt) (h : simpleModuleB body = true) : ∀ s ∈ body, SimpleS false s :=
  simpleModuleB_sound body h

open OlVerif.Sem in
/-- an expression free of helper names neither reads nor writes helper variables (proved, not assumed) -/
theorem helper_variables_are_invisible {U V : Type} (W : World U V) {e : Expr} {u u' : U} {t t' : T V} {v : V}
    (h : Ev W e u t v u' t') (hc : Clean e) : t' = t ∧ ∀ t2 : T V, Ev W e u t2 v u' t2 :=
  frame W h hc

/-- at module level the expression transformer is the identity -/
theorem module_level_expressions_unchanged (n : Nsp) (hn : n.kind = .module) (b : List String) (e e' : Expr)
    (h : transf n b e = .ok e') : e' = e :=
  transf_module_id n hn b e e' h

namespace Ex
open OlVerif.Sem
/-- non-vacuity: integers and sequences, globals as an association list, `+=` on integers, C-like truth -/
inductive PV
  | int (n : Int)
  | seq (vs : List PV)

def evalNames (u : List (String × PV)) : List Expr → Option (List PV)
  | [] => some []
  | .name x :: es => do
      let v ← u.lookup x
      let vs ← evalNames u es
      pure (v :: vs)
  | _ => none

def decodeInt : Expr → Option Int
  | .const (.int n) => some n
  | .unaryOp .uSub (.const (.int n)) => some (-n)
  | _ => none

theorem decodeInt_intConstant (h : Int) : decodeInt (intConstant h) = some h := by
  unfold intConstant
  split <;> simp [decodeInt]

def W : World (List (String × PV)) PV where
  eval := fun e u => match e with
    | .name x => (u.lookup x).map (·, u)
    | .tuple es => (evalNames u es).map (PV.seq ·, u)
    | _ => none
  const := fun c => match c with | .int n => .int n | _ => .int 0
  store := fun x v u => (x, v) :: u
  getattr := fun _ _ _ => none
  setattr := fun _ _ _ _ => none
  getitem := fun o i u => match o, i with
    | .seq vs, .int k => (pyIndexG vs k).map (·, u)
    | _, _ => none
  setitem := fun _ _ _ _ => none
  iop := fun op a b u => match op, a, b with | .add, .int x, .int y => some (.int (x + y), u) | _, _, _ => none
  listOf := .seq
  noneV := .int 0
  runner := .int 0
  truthy := fun v u => match v with | .int n => some (decide (n ≠ 0), u) | .seq vs => some (!vs.isEmpty, u)
  iter := fun v u => match v with | .seq vs => some (vs, u) | _ => none
  tupleOf := .seq
  getiter := fun v u => some (v, u)
  next := fun _ u => some (none, u)
  getslice := fun o a b c u => match o, a, c with
    | .seq vs, some (.const (.int lo)), none =>
      (match b with
       | none => some (.seq (pySliceG vs lo.toNat none), u)
       | some e => (decodeInt e).map fun h => (PV.seq (pySliceG vs lo.toNat (some h)), u))
    | _, _, _ => none

theorem W_lawful : Lawful W where
  list := by intro v vs u; simp [W]
  retest := by
    intro v u u' b h
    cases v <;> simp only [W, Option.some.injEq, Prod.mk.injEq] at h ⊢ <;> exact ⟨h.1, trivial⟩

theorem W_lawfulSeq : LawfulSeq W where
  index := by
    intro items i v u h
    simp [W, h]
  slice := by
    intro items lo hi u
    cases hi with
    | none => simp [W]
    | some h => simp [W, decodeInt_intConstant]
  iter := by intro items u; rfl

/-- `x = 1` / `a, *b = x, x, x` / `if a: x += 2` / `else: pass` / `for y, z in a: pass` / `else: pass`
    (this small world's iterators are empty; the theorem is about every world) -/
def prog : List Stmt :=
  [.assign [.name "x"] (.const (.int 1)),
   .assign [.tuple [.name "a", .starred (.name "b")]] (.tuple [.name "x", .name "x", .name "x"]),
   .if_ (.name "a") [.augAssign (.name "x") .add (.const (.int 2))] [.pass_],
   .for_ (.tuple [.name "y", .name "z"]) (.name "a") [.pass_] [.pass_]]

theorem prog_simple : ∀ s ∈ prog, SimpleS false s := fragment_decidable_sound prog (by decide)

def final : List (String × PV) := [("x", .int 3), ("b", .seq [.int 1, .int 1]), ("a", .int 1), ("x", .int 1)]

theorem prog_runs : ExecB W prog [] final :=
  .cons (.assign _ _ (.const _ _ _) (.cons (.name "x" _ _ (by decide)) (.nil _ _)))
    (.cons (.assign _ _ (.user _ _ (by decide) rfl)
        (.cons (.tuple _ (items := [.int 1, .int 1, .int 1]) (vals := [.int 1, .seq [.int 1, .int 1]]) rfl (by simp [pyValuesG, starIndex, Expr.isStarred, W])
          (.cons (.name "a" _ _ (by decide)) (.cons (.starred _ (.name "b" _ _ (by decide))) (.nil _)))) (.nil _ _)))
      (.cons (.ifTrue _ _ _ (.user _ _ (by decide) rfl) rfl
        (.cons (.augName "x" .add _ (by decide) (.user _ _ (by decide) rfl) (.const _ _ _) rfl) (.nil _)))
        (.cons (.for_ _ _ _ _ (.user _ _ (by decide) rfl) rfl (.done _ _ _ rfl) (.cons (.pass _) (.nil _))) (.nil _))))

example : ∃ e, lowerFull { ifStyle := .shortCircuit } default prog = .ok e ∧ ∃ v t', Ev W e [] [] v final t' :=
  ⟨_, rfl, module_straightline_semantics W W_lawful W_lawfulSeq { ifStyle := .shortCircuit } default prog prog_simple _ rfl prog_runs⟩

/-- `x = 1` / `while x: x += -1` / `else: pass` -/
def progW : List Stmt :=
  [.assign [.name "x"] (.const (.int 1)), .while_ (.name "x") [.augAssign (.name "x") .add (.const (.int (-1)))] [.pass_]]

theorem progW_runs : ExecB W progW [] [("x", .int 0), ("x", .int 1)] :=
  .cons (.assign _ _ (.const _ _ _) (.cons (.name "x" _ _ (by decide)) (.nil _ _)))
    (.cons (.while_ _ _ _
        (.step _ _ (.user _ _ (by decide) rfl) rfl
          (.cons (.augName "x" .add _ (by decide) (.user _ _ (by decide) rfl) (.const _ _ _) rfl) (.nil _))
          (.done _ _ (.user _ _ (by decide) rfl) rfl))
        (.cons (.pass _) (.nil _))) (.nil _))

example : ∃ e, lowerFull {} default progW = .ok e ∧
    ∃ b t', (e = wrapExprs {} b ∨ e = wrapExprs {} (itertoolsImport :: b)) ∧ Seq W b [] [] [("x", .int 0), ("x", .int 1)] t' :=
  ⟨_, rfl, module_with_while_semantics W W_lawful W_lawfulSeq {} default progW (simpleModuleWB_sound progW (by decide)) _ rfl progW_runs⟩
end Ex

end OlVerif.C01
