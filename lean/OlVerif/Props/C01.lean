import OlVerif.Lower.Stmt
namespace OlVerif.C01

/-- the arguments of a chain of calls `f(a0)(a1)...(an)`, in evaluation order -/
def chainArgs : Expr → List Expr
  | .call f [a] [] => chainArgs f ++ [a]
  | _ => []

theorem chainArgs_foldl (es : List Expr) (acc : Expr) :
    chainArgs (es.foldl (fun acc x => .call acc [x] []) acc) = chainArgs acc ++ es := by
  induction es generalizing acc with
  | nil => simp
  | cons e es ih => simp [List.foldl, ih, chainArgs]

/-- **Every lowered statement is evaluated exactly once, in order, by the chain-call wrapper**:
    the wrapper is the call chain `runner(e0)(e1)...(en)` whose arguments are exactly the
    statement expressions, none dropped, duplicated or reordered. -/
theorem chain_call_keeps_all (e : Expr) (es : List Expr) :
    chainArgs (chainCallWrapper (e :: es)) = e :: es := by
  simp [chainCallWrapper, chainArgs_foldl, chainArgs, chainRunner]

/-- the list wrapper is the list display of exactly the statement expressions -/
theorem list_keeps_all (es : List Expr) : listWrapper es = .list es := rfl

end OlVerif.C01
