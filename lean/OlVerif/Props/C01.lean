import OlVerif.Lower.Stmt
import OlVerif.Order.Proof
namespace OlVerif.C01

/-- the arguments of a chain of calls `f(a0)(a1)...(an)`, in evaluation order -/
def chainArgs : Expr → List Expr
  | .call f [a] [] => chainArgs f ++ [a]
  | _ => []

theorem chainArgs_foldl (es : List Expr) (acc : Expr) :
    chainArgs (es.foldl (fun acc x => .call acc [x] []) acc) = chainArgs acc ++ es := by
  induction es generalizing acc with
  | nil => simp
  | cons e es ih => simp [List.foldl, ih, chainArgs]

/-- **Every lowered statement is evaluated exactly once, in order, by the chain-call wrapper**:
    the wrapper is the call chain `runner(e0)(e1)...(en)` whose arguments are exactly the
    statement expressions, none dropped, duplicated or reordered. -/
theorem chain_call_keeps_all (e : Expr) (es : List Expr) :
    chainArgs (chainCallWrapper (e :: es)) = e :: es := by
  simp [chainCallWrapper, chainArgs_foldl, chainArgs, chainRunner]

/-- the list wrapper is the list display of exactly the statement expressions -/
theorem list_keeps_all (es : List Expr) : listWrapper es = .list es := rfl


/-- the same in the evaluation-order model (M-ORDER): whichever wrapper is configured, evaluating the
    one expression evaluates the statement expressions in order, each once (for every oracle) -/
theorem wrapper_evaluates_in_order (ρ : Expr → Bool) (cfg : Cfg) (es : List Expr) :
    tr ρ (wrapExprs cfg es) = trL ρ es :=
  tr_wrapExprs ρ cfg es

/-- **Straight-line programs keep their observable effects, in order.**  For a module made of
    assignments (any chain of targets, any nesting of patterns), annotated and augmented assignments,
    expression statements and function definitions whose subexpressions are effectful probes, the
    converted expression performs every effect of the program exactly once and in the order the
    script performs them (C07.program_order); control flow around such statements is C05's
    `lower_correct_module` / `lower_correct_function`. -/
theorem straight_line_effects (ρ : Expr → Bool) (cfg : Cfg) (root : SymScope) (ps : List PStmt)
    (hok : ∀ p ∈ ps, p.ok) (e : Expr) (h : lowerFull cfg root (ps.map PStmt.toStmt) = .ok e) :
    tr ρ e = PStmt.orders ps :=
  program_order ρ cfg root ps hok e h

end OlVerif.C01
