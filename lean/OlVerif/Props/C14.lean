/-
  C14 -- imports bind the same objects to the same names, importing the same modules in the
  same order.
-/
import OlVerif.Import.Model
import OlVerif.Import.Seq
import OlVerif.Import.Bridge
import OlVerif.Lower.WfOut

namespace OlVerif.C14

/-- `import a.b.c as x` -/
theorem import_as (st : ImpSt) (name : ModName) (a : String) :
    olImport st name (some a) = pyImport st name (some a) := by
  simp [olImport, pyImport, importModule]

/-- `import a` (undotted, no alias) -/
theorem import_plain (st : ImpSt) (a : String) :
    olImport st [a] none = pyImport st [a] none := by
  simp [olImport, pyImport, importModule, dotted]

/-- `import a.b.c` (dotted, no alias): the name bound is the first component and the object is
    the top-level package, while the whole chain is imported -/
theorem import_dotted (st : ImpSt) (a b : String) (rest : ModName) :
    olImport st (a :: b :: rest) none = pyImport st (a :: b :: rest) none := by
  simp [olImport, pyImport, builtinImportTop]

/-- all statement forms of `import` at once -/
theorem import_stmt (st : ImpSt) (name : ModName) (asname : Option String) (h : name ≠ []) :
    olImport st name asname = pyImport st name asname := by
  cases asname with
  | some a => exact import_as st name a
  | none =>
    match name, h with
    | [a], _ => exact import_plain st a
    | a :: b :: rest, _ => exact import_dotted st a b rest

/-- `from m import n [as x]`, for attributes and for not-yet-imported submodules -/
theorem from_import (sub : IsSubmodule) (st : ImpSt) (m : ModName) (n : String) (asname : Option String) :
    olFromName sub st m n asname = pyFromName sub st m n asname := by
  simp only [olFromName, pyFromName]
  split <;> rfl

/-- the chain is imported once: loading is idempotent -/
theorem load_idem (st : ImpSt) (m : ModName) : (st.load m).load m = st.load m := by
  simp only [ImpSt.load]
  split
  · simp [*]
  · simp

/-- non-vacuity: `import pk.sub.deep` on a fresh interpreter imports three modules in order and
    binds `pk` to the package -/
example : pyImport {} ["pk", "sub", "deep"] none =
    ({ loaded := [["pk"], ["pk", "sub"], ["pk", "sub", "deep"]] }, "pk", .module ["pk"]) := by decide

/-! ### whole import programs -/

theorem step_eq (sub : IsSubmodule) (s : ImpSt × ImpEnv) (x : ImpStep) (h : x.WF) : olStep sub s x = pyStep sub s x := by
  cases x with
  | imp name a => simp only [olStep, pyStep, import_stmt s.1 name a h]
  | fromName m n a => simp only [olStep, pyStep, from_import]

/-- **any sequence of import statements**, from any import state and any environment: the emitted calls load the
    same modules in the same order and leave the same bindings (shadowing included) as the statements do -/
theorem import_program (sub : IsSubmodule) (s : ImpSt × ImpEnv) (p : List ImpStep) (h : ∀ x ∈ p, x.WF) :
    olRun sub s p = pyRun sub s p := by
  simp only [olRun, pyRun]
  induction p generalizing s with
  | nil => rfl
  | cons x rest ih =>
    simp only [List.foldl_cons]
    rw [step_eq sub s x (h x (by simp))]
    exact ih _ (fun y hy => h y (by simp [hy]))

/-- the emitted calls never unload or reorder a module: what was loaded before stays a prefix of what is loaded
    after, and no module is loaded (its top-level code run) twice -/
theorem ol_step_loaded (sub : IsSubmodule) (s : ImpSt × ImpEnv) (x : ImpStep) :
    s.1.loaded <+: (olStep sub s x).1.loaded ∧ (s.1.loaded.Nodup → (olStep sub s x).1.loaded.Nodup) := by
  cases x with
  | imp name a =>
    simp only [olStep, olImport, builtinImportTop, importModule]
    split <;> exact ⟨importChain_prefix _ _ _, importChain_nodup _ _ _⟩
  | fromName m n a =>
    simp only [olStep, olFromName]
    split
    · exact ⟨load_prefix _ _, load_nodup _ _⟩
    · exact ⟨List.prefix_refl _, id⟩

theorem ol_run_loaded (sub : IsSubmodule) (s : ImpSt × ImpEnv) (p : List ImpStep) :
    s.1.loaded <+: (olRun sub s p).1.loaded ∧ (s.1.loaded.Nodup → (olRun sub s p).1.loaded.Nodup) := by
  simp only [olRun]
  induction p generalizing s with
  | nil => exact ⟨List.prefix_refl _, id⟩
  | cons x rest ih =>
    simp only [List.foldl_cons]
    obtain ⟨h1, h2⟩ := ol_step_loaded sub s x
    obtain ⟨h3, h4⟩ := ih (olStep sub s x)
    exact ⟨List.IsPrefix.trans h1 h3, fun hn => h4 (h2 hn)⟩

/-- non-vacuity: `import pk.sub as s; from pk import sub, v; import pk.sub.deep` -/
example : olRun (fun m n => m == ["pk"] && n == "sub") ({}, [])
    [.imp ["pk", "sub"] (some "s"), .fromName ["pk"] "sub" none, .fromName ["pk"] "v" none, .imp ["pk", "sub", "deep"] none] =
    ({ loaded := [["pk"], ["pk", "sub"], ["pk", "sub", "deep"]] },
     [("pk", .module ["pk"]), ("v", .attr ["pk"] "v"), ("sub", .module ["pk", "sub"]), ("s", .module ["pk", "sub"])]) := by decide

/-! ### bridge: the lowering model emits what M-IMPORT reasons about -/

/-- `lowerImport` emits exactly one binding per alias, in source order, each binding `importPlan`'s name to
    `importPlan`'s call through the namespace of the scope the statement stands in -/
theorem lower_import_plan (n : Nsp) : ∀ (as : List Alias) (es : List Expr), lowerImport n as = .ok es →
    es.length = as.length ∧ ∀ p ∈ as.zip es, n.getAssign (importPlan p.1).1 (importPlan p.1).2 = .ok p.2
  | [], es, h => by
      simp only [lowerImport] at h; cases h; simp
  | a :: as, es, h => by
      simp only [lowerImport] at h
      split at h <;> rename_i hc
      all_goals
        obtain ⟨e, he, h⟩ := bind_ok h
        obtain ⟨rest, hr, h⟩ := bind_ok h
        cases pure_ok h
        obtain ⟨hl, hz⟩ := lower_import_plan n as rest hr
        refine ⟨by simp [hl], ?_⟩
        intro p hp
        simp only [List.zip_cons_cons, List.mem_cons] at hp
        rcases hp with rfl | hp
        · simp only [importPlan, hc, if_true, if_false]
          exact he
        · exact hz p hp

/-- under the string facts, the text-level decision of the code is the path-level decision of M-IMPORT: the name
    bound is the one `olImport` binds, and the call emitted is the one `olImport` stands for -/
theorem plan_is_model (a : Alias) (h : a.dotOK = true) (st : ImpSt) :
    (importPlan a).1 = (olImport st a.modName a.asname).2.1 ∧ (importPlan a).2 = modelCall a.modName a.asname := by
  simp only [Alias.dotOK, Bool.and_eq_true, beq_iff_eq] at h
  obtain ⟨h1, h2⟩ := h
  by_cases hc : (a.asname.isNone && a.name.contains '.') = true
  · have hc' : (a.asname.isNone && decide (a.modName.length > 1)) = true := by rw [← h1]; exact hc
    simp only [importPlan, hc, olImport, hc', modelCall, if_true, builtinImportTop, h2]
    all_goals (try simp [Alias.modName])
  · have hc' : ¬ (a.asname.isNone && decide (a.modName.length > 1)) = true := by rw [← h1]; exact hc
    simp only [importPlan, hc, olImport, hc', modelCall, if_false, importModule, h2]
    all_goals (try simp)

theorem lower_from_names (n : Nsp) (tmp : String) : ∀ (as : List Alias) (es : List Expr),
    lowerImportFromNames n tmp as = .ok es →
    es.length = as.length ∧ (∀ a ∈ as, a.name ≠ "*") ∧
    ∀ p ∈ as.zip es, n.getAssign (p.1.asname.getD p.1.name) (.attribute (.name tmp) p.1.name) = .ok p.2
  | [], es, h => by
      simp only [lowerImportFromNames] at h; cases h; simp
  | a :: as, es, h => by
      simp only [lowerImportFromNames] at h
      split at h
      · cases h
      · rename_i hs
        obtain ⟨e, he, h⟩ := bind_ok h
        obtain ⟨rest, hr, h⟩ := bind_ok h
        cases pure_ok h
        obtain ⟨hl, hn, hz⟩ := lower_from_names n tmp as rest hr
        refine ⟨by simp [hl], ?_, ?_⟩
        · intro b hb
          simp only [List.mem_cons] at hb
          rcases hb with rfl | hb
          · simpa using hs
          · exact hn b hb
        · intro p hp
          simp only [List.zip_cons_cons, List.mem_cons] at hp
          rcases hp with rfl | hp
          · exact he
          · exact hz p hp

/-- `from m import a [as x], b, …` lowers to one `__import__(m, globals(), locals(), [all names], level)` bound to a
    fresh helper, followed by one binding per name, in source order, of `asname or name` to `helper.name`;
    `from m import *` is refused -/
theorem lower_from_plan (n : Nsp) (m : Option String) (names : List Alias) (level : Nat) (st st' : St) (es : List Expr)
    (h : lowerImportFrom n m names level st = .ok (es, st')) :
    ∃ rest, es = .namedExpr (st.fresh "mod").1 (.call (.name "__import__")
        [Expr.str (m.getD ""), .call (.name "globals") [] [], .call (.name "locals") [] [],
         .list (names.map fun a => Expr.str a.name), .const (.int level)] []) :: rest ∧
      st' = (st.fresh "mod").2 ∧ rest.length = names.length ∧ (∀ a ∈ names, a.name ≠ "*") ∧
      ∀ p ∈ names.zip rest, n.getAssign (p.1.asname.getD p.1.name) (.attribute (.name (st.fresh "mod").1) p.1.name) = .ok p.2 := by
  simp only [lowerImportFrom] at h
  obtain ⟨rest, hr, h⟩ := bind_ok h
  cases pure_ok h
  obtain ⟨hl, hn, hz⟩ := lower_from_names n _ names rest hr
  exact ⟨rest, rfl, rfl, hl, hn, hz⟩

end OlVerif.C14
