/-
  C14 -- imports bind the same objects to the same names, importing the same modules in the
  same order.
-/
import OlVerif.Import.Model

namespace OlVerif.C14

/-- `import a.b.c as x` -/
theorem import_as (st : ImpSt) (name : ModName) (a : String) :
    olImport st name (some a) = pyImport st name (some a) := by
  simp [olImport, pyImport, importModule]

/-- `import a` (undotted, no alias) -/
theorem import_plain (st : ImpSt) (a : String) :
    olImport st [a] none = pyImport st [a] none := by
  simp [olImport, pyImport, importModule, dotted]

/-- `import a.b.c` (dotted, no alias): the name bound is the first component and the object is
    the top-level package, while the whole chain is imported -/
theorem import_dotted (st : ImpSt) (a b : String) (rest : ModName) :
    olImport st (a :: b :: rest) none = pyImport st (a :: b :: rest) none := by
  simp [olImport, pyImport, builtinImportTop]

/-- all statement forms of `import` at once -/
theorem import_stmt (st : ImpSt) (name : ModName) (asname : Option String) (h : name ≠ []) :
    olImport st name asname = pyImport st name asname := by
  cases asname with
  | some a => exact import_as st name a
  | none =>
    match name, h with
    | [a], _ => exact import_plain st a
    | a :: b :: rest, _ => exact import_dotted st a b rest

/-- `from m import n [as x]`, for attributes and for not-yet-imported submodules -/
theorem from_import (sub : IsSubmodule) (st : ImpSt) (m : ModName) (n : String) (asname : Option String) :
    olFromName sub st m n asname = pyFromName sub st m n asname := by
  simp only [olFromName, pyFromName]
  split <;> rfl

/-- the chain is imported once: loading is idempotent -/
theorem load_idem (st : ImpSt) (m : ModName) : (st.load m).load m = st.load m := by
  simp only [ImpSt.load]
  split
  · simp [*]
  · simp

/-- non-vacuity: `import pk.sub.deep` on a fresh interpreter imports three modules in order and
    binds `pk` to the package -/
example : pyImport {} ["pk", "sub", "deep"] none =
    ({ loaded := [["pk"], ["pk", "sub"], ["pk", "sub", "deep"]] }, "pk", .module ["pk"]) := by decide

end OlVerif.C14
