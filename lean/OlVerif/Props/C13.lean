/-
  C13 -- assignment, destructuring and augmented assignment store what Python stores.
-/
import OlVerif.Assign.Unpack
import OlVerif.Gen.Dispatch
import OlVerif.Lower.Stmt
import OlVerif.Lower.WfOut

namespace OlVerif.C13

/-- **Destructuring**: whenever Python's unpacking succeeds, every target (before the star, the
    starred one, after the star) receives from the emitted index / slice expression exactly the
    value Python gives it - for every number of targets, every star position and every length
    of the source sequence. -/
theorem unpack (n : Nat) (star : Option Nat) (vs r : List Val)
    (h : pyValues n star vs = some r) : ∀ i, i < n → olValue n star vs i = r[i]? := by
  intro i hi
  cases star with
  | none =>
    simp only [pyValues] at h
    split at h
    · rename_i hl
      cases h
      simp only [olValue, pyIndex]
      have : (0 : Int) ≤ (i : Int) := Int.natCast_nonneg i
      simp [this]
    · cases h
  | some k =>
    simp only [pyValues] at h
    split at h
    · rename_i hk
      obtain ⟨hk1, hk2⟩ := hk
      cases h
      simp only [olValue]
      by_cases h1 : i < k
      · -- before the star
        simp only [h1, ↓reduceIte, pyIndex]
        have : (0 : Int) ≤ (i : Int) := Int.natCast_nonneg i
        have hlen : (List.take k vs).length = k := by simp; omega
        simp only [this, ↓reduceIte, Int.toNat_natCast, List.append_assoc]
        rw [List.getElem?_append_left (by omega)]
        simp [h1]
      · by_cases h2 : i = k
        · -- the starred target
          subst h2
          have hlen : (List.take i vs).length = i := by simp; omega
          simp only [Nat.lt_irrefl, ↓reduceIte, List.append_assoc]
          rw [List.getElem?_append_right (by omega)]
          simp only [hlen, Nat.sub_self, List.cons_append, List.nil_append, List.getElem?_cons_zero, Option.some.injEq,
            Val.seq.injEq]
          by_cases h3 : (i : Int) - n + 1 = 0
          · have : n - 1 = i := by omega
            simp only [h3, ↓reduceIte, pySlice]
            rw [List.take_of_length_le (by simp; omega)]
          · simp only [h3, ↓reduceIte, pySlice]
            have e : (-((i : Int) - n + 1)).toNat = n - 1 - i := by omega
            rw [e, List.drop_take]
            congr 1
            omega
        · -- after the star
          have h3 : k < i := by omega
          simp only [h1, h2, ↓reduceIte, pyIndex]
          have hneg : ¬ (0 : Int) ≤ (i : Int) - n := by omega
          have e : (-((i : Int) - n)).toNat = n - i := by omega
          simp only [hneg, ↓reduceIte, e]
          have hle : n - i ≤ vs.length := by omega
          simp only [hle, ↓reduceIte, List.append_assoc]
          have hlen : (List.take k vs).length = k := by simp; omega
          rw [List.getElem?_append_right (by omega)]
          simp only [hlen, List.cons_append, List.nil_append]
          have : i - k = (i - k - 1) + 1 := by omega
          rw [this, List.getElem?_cons_succ, List.getElem?_drop]
          congr 1
          omega
    · cases h

/-- non-vacuity: `a, *b, c = [1, 2, 3, 4]` -/
example : pyValues 3 (some 1) [.atom 1, .atom 2, .atom 3, .atom 4] =
    some [.atom 1, .seq [.atom 2, .atom 3], .atom 4] := by simp [pyValues]
example : olValue 3 (some 1) [.atom 1, .atom 2, .atom 3, .atom 4] 2 = some (.atom 4) := by
  simp [olValue, pyIndex]

/-- reference table: the function of the standard `operator` module that performs `a op= b`
    (library reference, `operator`, "In-place Operators": `a = iadd(a, b)` is equivalent to `a += b`, …) -/
def refInplaceName : BinOpK → String
  | .add => "iadd" | .sub => "isub" | .mult => "imul" | .matMult => "imatmul"
  | .div => "itruediv" | .floorDiv => "ifloordiv" | .mod => "imod" | .pow => "ipow"
  | .lShift => "ilshift" | .rShift => "irshift" | .bitAnd => "iand" | .bitXor => "ixor"
  | .bitOr => "ior"

/-- T obligation: `PendingAugAssign._op_dict` (regenerated from /repo) maps every one of the 13
    operators to its own in-place function of the `operator` module -/
theorem dunder_table (op : BinOpK) : genAugOpName op = refInplaceName op := by
  cases op <;> decide

/-- the model of the lowering uses the same table -/
theorem model_uses_table (op : BinOpK) : augOpName op = genAugOpName op := by
  cases op <;> decide


/-! ### augmented assignment: one load, one call of the operator function, one store -/

/-- name target: the name is stored once, and what is stored is `operator.i<op>(name, value)` -/
theorem aug_name_single_store (n : Nsp) (x : String) (op : BinOpK) (value : Expr) (st : St)
    (es : List Expr) (st' : St) (h : lowerAugAssign n (.name x) op value st = .ok (es, st')) :
    ∃ v t r, transf n [] value = .ok v ∧ n.getLoad [] x = .ok t ∧
      n.getAssign x (augAssignExpr t op v) = .ok r ∧ es = [r] := by
  simp only [lowerAugAssign] at h
  obtain ⟨v, hv, h⟩ := bind_ok h
  obtain ⟨t, ht, h⟩ := bind_ok h
  obtain ⟨r, hr, h⟩ := bind_ok h
  cases pure_ok h
  exact ⟨v, t, r, hv, ht, hr, rfl⟩

/-- attribute target: the object is evaluated once into a temporary, the attribute is loaded once
    from it, and one `setattr` on the same temporary stores `operator.i<op>(loaded, value)` -/
theorem aug_attr_single_store (n : Nsp) (o : Expr) (a : String) (op : BinOpK) (value : Expr) (st : St)
    (es : List Expr) (st' : St) (h : lowerAugAssign n (.attribute o a) op value st = .ok (es, st')) :
    ∃ v p obj tmp, transf n [] value = .ok v ∧ transf n [] o = .ok p ∧
      es = [.namedExpr obj p, .namedExpr tmp (.attribute (.name obj) a),
            .call (.name "setattr") [.name obj, Expr.str a, augAssignExpr (.name tmp) op v] []] := by
  simp only [lowerAugAssign] at h
  obtain ⟨v, hv, h⟩ := bind_ok h
  obtain ⟨p, hp, h⟩ := bind_ok h
  cases pure_ok h
  exact ⟨v, p, _, _, hv, hp, rfl⟩

/-- subscript target: object and index are evaluated once each into temporaries, the item is loaded
    once, and one `__setitem__` with the same object and index stores `operator.i<op>(loaded, value)` -/
theorem aug_sub_single_store (n : Nsp) (o i : Expr) (op : BinOpK) (value : Expr) (st : St)
    (es : List Expr) (st' : St) (h : lowerAugAssign n (.subscript o i) op value st = .ok (es, st')) :
    ∃ v p ix obj sl tmp, transf n [] value = .ok v ∧ transf n [] o = .ok p ∧ transf n [] i = .ok ix ∧
      es = [.namedExpr obj p, .namedExpr sl (convertIndex ix), .namedExpr tmp (.subscript (.name obj) (.name sl)),
            .call (.attribute (.name obj) "__setitem__") [.name sl, augAssignExpr (.name tmp) op v] []] := by
  simp only [lowerAugAssign] at h
  obtain ⟨v, hv, h⟩ := bind_ok h
  obtain ⟨p, hp, h⟩ := bind_ok h
  obtain ⟨ix, hix, h⟩ := bind_ok h
  cases pure_ok h
  exact ⟨v, p, ix, _, _, _, hv, hp, hix, rfl⟩

end OlVerif.C13
