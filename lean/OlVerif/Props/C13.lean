/-
  C13 -- assignment, destructuring and augmented assignment store what Python stores.
-/
import OlVerif.Assign.Unpack
import OlVerif.Gen.Dispatch
import OlVerif.Lower.Stmt
import OlVerif.Lower.WfOut

namespace OlVerif.C13

/-- **Destructuring**: whenever Python's unpacking succeeds, every target (before the star, the
    starred one, after the star) receives from the emitted index / slice expression exactly the
    value Python gives it - for every number of targets, every star position and every length
    of the source sequence. -/
theorem unpack (n : Nat) (star : Option Nat) (vs r : List Val)
    (h : pyValues n star vs = some r) : ∀ i, i < n → olValue n star vs i = r[i]? :=
  unpackG Val.seq n star vs r h

/-- non-vacuity: `a, *b, c = [1, 2, 3, 4]` -/
example : pyValues 3 (some 1) [.atom 1, .atom 2, .atom 3, .atom 4] =
    some [.atom 1, .seq [.atom 2, .atom 3], .atom 4] := by simp [pyValues, pyValuesG]
example : olValue 3 (some 1) [.atom 1, .atom 2, .atom 3, .atom 4] 2 = some (.atom 4) := by
  simp [olValue, olValueG, pyIndexG]

/-- reference table: the function of the standard `operator` module that performs `a op= b`
    (library reference, `operator`, "In-place Operators": `a = iadd(a, b)` is equivalent to `a += b`, …) -/
def refInplaceName : BinOpK → String
  | .add => "iadd" | .sub => "isub" | .mult => "imul" | .matMult => "imatmul"
  | .div => "itruediv" | .floorDiv => "ifloordiv" | .mod => "imod" | .pow => "ipow"
  | .lShift => "ilshift" | .rShift => "irshift" | .bitAnd => "iand" | .bitXor => "ixor"
  | .bitOr => "ior"

/-- T obligation: `PendingAugAssign._op_dict` (regenerated from /repo) maps every one of the 13
    operators to its own in-place function of the `operator` module -/
theorem dunder_table (op : BinOpK) : genAugOpName op = refInplaceName op := by
  cases op <;> decide

/-- the model of the lowering uses the same table -/
theorem model_uses_table (op : BinOpK) : augOpName op = genAugOpName op := by
  cases op <;> decide


/-! ### augmented assignment: one load, one call of the operator function, one store -/

/-- name target: the name is stored once, and what is stored is `operator.i<op>(name, value)` -/
theorem aug_name_single_store (n : Nsp) (x : String) (op : BinOpK) (value : Expr) (st : St)
    (es : List Expr) (st' : St) (h : lowerAugAssign n (.name x) op value st = .ok (es, st')) :
    ∃ v t r, transf n [] value = .ok v ∧ n.getLoad [] x = .ok t ∧
      n.getAssign x (augAssignExpr t op v) = .ok r ∧ es = [r] := by
  simp only [lowerAugAssign] at h
  obtain ⟨v, hv, h⟩ := bind_ok h
  obtain ⟨t, ht, h⟩ := bind_ok h
  obtain ⟨r, hr, h⟩ := bind_ok h
  cases pure_ok h
  exact ⟨v, t, r, hv, ht, hr, rfl⟩

/-- attribute target: the object is evaluated once into a temporary, the attribute is loaded once
    from it, and one `setattr` on the same temporary stores `operator.i<op>(loaded, value)` -/
theorem aug_attr_single_store (n : Nsp) (o : Expr) (a : String) (op : BinOpK) (value : Expr) (st : St)
    (es : List Expr) (st' : St) (h : lowerAugAssign n (.attribute o a) op value st = .ok (es, st')) :
    ∃ v p obj tmp, transf n [] value = .ok v ∧ transf n [] o = .ok p ∧
      es = [.namedExpr obj p, .namedExpr tmp (.attribute (.name obj) a),
            .call (.name "setattr") [.name obj, Expr.str a, augAssignExpr (.name tmp) op v] []] := by
  simp only [lowerAugAssign] at h
  obtain ⟨v, hv, h⟩ := bind_ok h
  obtain ⟨p, hp, h⟩ := bind_ok h
  cases pure_ok h
  exact ⟨v, p, _, _, hv, hp, rfl⟩

/-- subscript target: object and index are evaluated once each into temporaries, the item is loaded
    once, and one `__setitem__` with the same object and index stores `operator.i<op>(loaded, value)` -/
theorem aug_sub_single_store (n : Nsp) (o i : Expr) (op : BinOpK) (value : Expr) (st : St)
    (es : List Expr) (st' : St) (h : lowerAugAssign n (.subscript o i) op value st = .ok (es, st')) :
    ∃ v p ix obj sl tmp, transf n [] value = .ok v ∧ transf n [] o = .ok p ∧ transf n [] i = .ok ix ∧
      es = [.namedExpr obj p, .namedExpr sl (convertIndex ix), .namedExpr tmp (.subscript (.name obj) (.name sl)),
            .call (.attribute (.name obj) "__setitem__") [.name sl, augAssignExpr (.name tmp) op v] []] := by
  simp only [lowerAugAssign] at h
  obtain ⟨v, hv, h⟩ := bind_ok h
  obtain ⟨p, hp, h⟩ := bind_ok h
  obtain ⟨ix, hix, h⟩ := bind_ok h
  cases pure_ok h
  exact ⟨v, p, ix, _, _, _, hv, hp, hix, rfl⟩

end OlVerif.C13
