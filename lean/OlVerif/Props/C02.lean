import OlVerif.Props.C04
import OlVerif.Unparse.OneLine
import OlVerif.Lower.WfOutStmt
import OlVerif.Unparse.DerivesProof
namespace OlVerif.C02

/-- `str.replace("\n", "")` as a function on code points -/
def dropNewlines : List Nat → List Nat
  | [] => []
  | c :: cs => if c = 10 then dropNewlines cs else c :: dropNewlines cs

/-- the default pipeline `ast.unparse(out).replace("\n", "")` never returns a line feed,
    whatever the standard unparser printed -/
theorem one_line_std (s : List Nat) : ∀ c ∈ dropNewlines s, c ≠ 10 := by
  induction s with
  | nil => simp [dropNewlines]
  | cons c cs ih =>
    simp only [dropNewlines]
    split
    · exact ih
    · intro a ha
      simp only [List.mem_cons] at ha
      rcases ha with rfl | ha
      · assumption
      · exact ih a ha


/-- **The custom unparser never writes a line break.**  For every expression tree whose leaves are
    clean (`okE`: identifiers and CPython's `repr` of numbers and bytes contain no LF/CR - text the
    unparser copies, not text it makes - and strings hold code points below 0x110000), every token
    of `expr_unparse`'s output is free of LF and CR: the escapes of string bodies (C04), the doubled
    braces of f-string parts, the operator spellings regenerated from the code, the punctuation. -/
theorem one_line_oneliner (e : Expr) (h : okE e) : ∀ t ∈ unparseTop e, ∀ c ∈ t.text, c ≠ 10 ∧ c ≠ 13 :=
  fun t ht => (cpsClean_iff _).mp (clean_unparseTop e h t ht)

/-- **Everything the unparser module can write of its own is free of line breaks**: every string
    constant of `expr_unparse.py` (docstrings excluded) and every entry of its operator tables,
    regenerated from the source on every run - the separators and blanks that the token model
    leaves out are in this table. -/
theorem own_text_one_line : ∀ s ∈ unparserTexts, StrClean s := by decide +kernel

/-- integer literals are clean leaves, whatever their size or sign -/
theorem int_leaf_clean (n : Int) : okC (.int n) := by
  have digits : ∀ m : Nat, StrClean (toString m) := by
    intro m
    refine (cpsClean_iff _).mpr ?_
    intro c hc
    simp only [List.mem_map] at hc
    obtain ⟨ch, hch, rfl⟩ := hc
    rw [Nat.toString_eq_repr, Nat.toList_repr] at hch
    have := Nat.isDigit_of_mem_toDigits (by decide) (by decide) hch
    simp only [Char.isDigit, Bool.and_eq_true, decide_eq_true_eq] at this
    have h1 : 48 ≤ ch.toNat := by have := this.1; exact this
    constructor <;> omega
  intro q
  simp only [unparseConst]
  split
  · rename_i hneg
    obtain ⟨m, hm⟩ : ∃ m : Nat, -n = (m : Int) := ⟨(-n).toNat, by omega⟩
    rw [hm]
    exact clean_cons (op_clean _ (by decide)) (clean_single (digits m))
  · rename_i hpos
    obtain ⟨m, hm⟩ : ∃ m : Nat, n = (m : Int) := ⟨n.toNat, by omega⟩
    rw [hm]
    exact clean_single (digits m)

/-- non-vacuity: an f-string holding a line feed, a brace and a quote, an attribute of a negative
    number, a lambda with defaults and a comprehension all meet the hypothesis -/
example : okE (.joinedStr [.const (.str [10, 123, 39, 13]),
              .formattedValue (.attribute (.const (.int (-3))) "real") (-1) none]) := by
  refine ⟨?_, ⟨⟨int_leaf_clean _, by decide⟩, trivial, ?_⟩, trivial⟩
  · intro c hc; simp at hc; omega
  · simp [convToks]; exact clean_nil


/-- **The converted program is a well-formed expression tree.**  Whenever the conversion succeeds
    on a program whose expressions are well-formed (`wfBlock`: every expression, target, default,
    decorator, base … of every statement, at any depth, is a tree the parser can produce), the
    tree it returns is well-formed (`wfE`): the transformer keeps shapes (mutual induction over
    its 13 functions, `Lower/WfOut.lean`), every template the 18 statement kinds are lowered to is
    well-formed, both wrappers are (`Lower/WfOutStmt.lean`).  All configurations, all symbol tables. -/
theorem wf_output (cfg : Cfg) (root : SymScope) (body : List Stmt) (e : Expr)
    (h : lowerFull cfg root body = .ok e) (hw : wfBlock body) : wfE e :=
  lowerFull_wf cfg root body e h hw

/-- **The text written for the converted program is an expression of CPython's grammar.**
    Composition of `wf_output` with C03's `unparse_derives`: with the custom unparser, the token
    list written for the converted program is derived by the expression grammar at the level
    `eval` mode expects, and the derivation builds exactly the converted tree.  (What `compile`
    checks beyond the grammar - e.g. a walrus inside a comprehension iterable, KF-D16 - is decided
    by the oracle.) -/
theorem output_is_expression (cfg : Cfg) (root : SymScope) (body : List Stmt) (e : Expr)
    (h : lowerFull cfg root body = .ok e) (hw : wfBlock body) : D Lv.expression (unparseTop e) e :=
  unparseTop_D e (wf_output cfg root body e h hw)

/-- non-vacuity: a program with a class, a method with defaults, a loop with break and an
    augmented subscript assignment has well-formed expressions -/
example : wfBlock
    [.classDef "A" [.name "B"] [.mk (some "metaclass") (.name "M")]
      [.functionDef "m" (.mk [] ["self", "k"] none [] [] none [.const (.int 1)])
        [.for_ (.tuple [.name "i", .starred (.name "r")]) (.call (.name "f") [.name "k"] [])
          [.if_ (.compare (.name "i") [.gt] [.const (.int 2)]) [.break_] [],
           .augAssign (.subscript (.name "d") (.tuple [.slice none none none, .name "i"])) .add (.name "r")] [],
         .return_ (some (.name "k"))] [.name "dec"] 2] [] 1] := by
  simp [wfBlock, wfS, wfE, wfL, wfO, wfOL, wfA, wfElts, wfKws, wfSlice, wfSliceElts, wfC, isSlice]

end OlVerif.C02
