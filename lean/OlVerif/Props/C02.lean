import OlVerif.Props.C04
import OlVerif.Unparse.OneLine
namespace OlVerif.C02

/-- `str.replace("\n", "")` as a function on code points -/
def dropNewlines : List Nat → List Nat
  | [] => []
  | c :: cs => if c = 10 then dropNewlines cs else c :: dropNewlines cs

/-- the default pipeline `ast.unparse(out).replace("\n", "")` never returns a line feed,
    whatever the standard unparser printed -/
theorem one_line_std (s : List Nat) : ∀ c ∈ dropNewlines s, c ≠ 10 := by
  induction s with
  | nil => simp [dropNewlines]
  | cons c cs ih =>
    simp only [dropNewlines]
    split
    · exact ih
    · intro a ha
      simp only [List.mem_cons] at ha
      rcases ha with rfl | ha
      · assumption
      · exact ih a ha


/-- **The custom unparser never writes a line break.**  For every expression tree whose leaves are
    clean (`okE`: identifiers and CPython's `repr` of numbers and bytes contain no LF/CR - text the
    unparser copies, not text it makes - and strings hold code points below 0x110000), every token
    of `expr_unparse`'s output is free of LF and CR: the escapes of string bodies (C04), the doubled
    braces of f-string parts, the operator spellings regenerated from the code, the punctuation. -/
theorem one_line_oneliner (e : Expr) (h : okE e) : ∀ t ∈ unparseTop e, ∀ c ∈ t.text, c ≠ 10 ∧ c ≠ 13 :=
  fun t ht => (cpsClean_iff _).mp (clean_unparseTop e h t ht)

/-- **Everything the unparser module can write of its own is free of line breaks**: every string
    constant of `expr_unparse.py` (docstrings excluded) and every entry of its operator tables,
    regenerated from the source on every run - the separators and blanks that the token model
    leaves out are in this table. -/
theorem own_text_one_line : ∀ s ∈ unparserTexts, StrClean s := by decide +kernel

/-- integer literals are clean leaves, whatever their size or sign -/
theorem int_leaf_clean (n : Int) : okC (.int n) := by
  have digits : ∀ m : Nat, StrClean (toString m) := by
    intro m
    refine (cpsClean_iff _).mpr ?_
    intro c hc
    simp only [List.mem_map] at hc
    obtain ⟨ch, hch, rfl⟩ := hc
    rw [Nat.toString_eq_repr, Nat.toList_repr] at hch
    have := Nat.isDigit_of_mem_toDigits (by decide) (by decide) hch
    simp only [Char.isDigit, Bool.and_eq_true, decide_eq_true_eq] at this
    have h1 : 48 ≤ ch.toNat := by have := this.1; exact this
    constructor <;> omega
  intro q
  simp only [unparseConst]
  split
  · rename_i hneg
    obtain ⟨m, hm⟩ : ∃ m : Nat, -n = (m : Int) := ⟨(-n).toNat, by omega⟩
    rw [hm]
    exact clean_cons (op_clean _ (by decide)) (clean_single (digits m))
  · rename_i hpos
    obtain ⟨m, hm⟩ : ∃ m : Nat, n = (m : Int) := ⟨n.toNat, by omega⟩
    rw [hm]
    exact clean_single (digits m)

/-- non-vacuity: an f-string holding a line feed, a brace and a quote, an attribute of a negative
    number, a lambda with defaults and a comprehension all meet the hypothesis -/
example : okE (.joinedStr [.const (.str [10, 123, 39, 13]),
              .formattedValue (.attribute (.const (.int (-3))) "real") (-1) none]) := by
  refine ⟨?_, ⟨⟨int_leaf_clean _, by decide⟩, trivial, ?_⟩, trivial⟩
  · intro c hc; simp at hc; omega
  · simp [convToks]; exact clean_nil

end OlVerif.C02
