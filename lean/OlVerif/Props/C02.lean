import OlVerif.Props.C04
namespace OlVerif.C02

/-- `str.replace("\n", "")` as a function on code points -/
def dropNewlines : List Nat → List Nat
  | [] => []
  | c :: cs => if c = 10 then dropNewlines cs else c :: dropNewlines cs

/-- the default pipeline `ast.unparse(out).replace("\n", "")` never returns a line feed,
    whatever the standard unparser printed -/
theorem one_line_std (s : List Nat) : ∀ c ∈ dropNewlines s, c ≠ 10 := by
  induction s with
  | nil => simp [dropNewlines]
  | cons c cs ih =>
    simp only [dropNewlines]
    split
    · exact ih
    · intro a ha
      simp only [List.mem_cons] at ha
      rcases ha with rfl | ha
      · assumption
      · exact ih a ha

end OlVerif.C02
