/-
  C04 -- property theorems (only): literals are written so that CPython's literal decoding
  gives back exactly the value, on one physical line, in encodable text.
  `escape` is the model of `get_unescaped_str`; its 512-entry table and its behaviour above
  U+00FF are regenerated from /repo on every run (Gen/Escape.lean).
-/
import OlVerif.Unparse.StrLit

namespace OlVerif.C04

/-- the regenerated table, entry by entry: every code point below 256, with either quote, is
    written as something the decoder reads back as that code point, with no line break, no
    surrogate and no brace that was not there -/
theorem esc_table_ok :
    ∀ q : Quote, ∀ c ∈ List.range 256, unitOk q c = true ∧ unitClean q c = true := by
  intro q; cases q <;> decide +kernel

theorem hexVal_hex (n : Nat) (h : n < 16) : hexVal (if n < 10 then 48 + n else 87 + n) = some n := by
  unfold hexVal
  split <;> split <;> first | (congr 1; omega) | omega | (split <;> first | (congr 1; omega) | omega | (split <;> first | (congr 1; omega) | omega))

/-- code points above U+00FF (surrogates included), for whichever way the code writes them -/
theorem esc_high_ok (q : Quote) (c : Nat) (h1 : 256 ≤ c) (h2 : c < 0x110000) :
    unitOk q c = true ∧ unitClean q c = true := by
  have hq : q.cp = 39 ∨ q.cp = 34 := by cases q <;> simp [Quote.cp]
  have hx : ∀ n, n < 16 → hexVal (if n < 10 then 48 + n else 87 + n) = some n := hexVal_hex
  have hd : ∀ n, n < 16 → (if n < 10 then 48 + n else 87 + n) ≠ 10 ∧ (if n < 10 then 48 + n else 87 + n) ≠ 13 ∧
      (if n < 10 then 48 + n else 87 + n) < 0xD800 ∧ (if n < 10 then 48 + n else 87 + n) ≠ 123 ∧
      (if n < 10 then 48 + n else 87 + n) ≠ 125 := by
    intro n hn; split <;> omega
  have hlt : ¬ c < 256 := by omega
  by_cases hs : 0xD800 ≤ c ∧ c ≤ 0xDFFF
  · -- surrogate
    cases hr : escSurRaw
    · have e : escOne q c = [92, 117, (if c / 4096 % 16 < 10 then 48 + c / 4096 % 16 else 87 + c / 4096 % 16),
          (if c / 256 % 16 < 10 then 48 + c / 256 % 16 else 87 + c / 256 % 16),
          (if c / 16 % 16 < 10 then 48 + c / 16 % 16 else 87 + c / 16 % 16),
          (if c % 16 < 10 then 48 + c % 16 else 87 + c % 16)] := by
        simp [escOne, hlt, hs, hr]
      have a1 := hx (c / 4096 % 16) (by omega); have a2 := hx (c / 256 % 16) (by omega)
      have a3 := hx (c / 16 % 16) (by omega); have a4 := hx (c % 16) (by omega)
      have d1 := hd (c / 4096 % 16) (by omega); have d2 := hd (c / 256 % 16) (by omega)
      have d3 := hd (c / 16 % 16) (by omega); have d4 := hd (c % 16) (by omega)
      constructor
      · unfold unitOk
        rw [e]
        simp only [a1, a2, a3, a4, beq_iff_eq]
        omega
      · unfold unitClean
        rw [e]
        simp
        omega
    · -- written raw: the text would hold a surrogate, which cannot be encoded
      exfalso
      revert hr
      decide
  · cases hr : escHighRaw
    · exfalso; revert hr; decide
    · have e : escOne q c = [c] := by simp [escOne, hlt, hs, hr]
      constructor
      · simp only [unitOk, e, beq_self_eq_true, Bool.true_and, Bool.and_eq_true, bne_iff_ne, ne_eq]
        rcases hq with hq | hq <;> simp [hq] <;> omega
      · simp only [unitClean, e, List.all_cons, List.all_nil, Bool.and_true, Bool.and_eq_true, bne_iff_ne, ne_eq]
        simp
        omega

/-- **String literals round-trip**: for every string of code points (any length, any content
    incl. quotes, backslashes, control characters, line breaks, braces, surrogates) and either
    quote, Python's literal decoding of the emitted text gives back exactly the string and
    stops exactly at the closing quote. -/
theorem escape_roundtrip (q : Quote) (s rest : List Nat) (hs : ∀ c ∈ s, c < 0x110000) :
    decodeStr q (s.length + 1) (escape q s ++ q.cp :: rest) = some (s, rest) := by
  apply decodeStr_escape
  intro c hc
  by_cases h : c < 256
  · exact (esc_table_ok q c (List.mem_range.mpr h)).1
  · exact (esc_high_ok q c (by omega) (hs c hc)).1

theorem unitClean_all (q : Quote) (c : Nat) (h : c < 0x110000) : unitClean q c = true := by
  by_cases h' : c < 256
  · exact (esc_table_ok q c (List.mem_range.mpr h')).2
  · exact (esc_high_ok q c (by omega) h).2

/-- **Never a line break, never an unencodable character** in the body of a literal. -/
theorem escape_one_line (q : Quote) (s : List Nat) (hs : ∀ c ∈ s, c < 0x110000) :
    ∀ a ∈ escape q s, a ≠ 10 ∧ a ≠ 13 ∧ ¬ (0xD800 ≤ a ∧ a ≤ 0xDFFF) := by
  induction s with
  | nil => simp [escape]
  | cons c cs ih =>
    intro a ha
    simp only [escape, List.mem_append] at ha
    rcases ha with ha | ha
    · have := unitClean_all q c (hs c (by simp))
      simp only [unitClean, List.all_eq_true] at this
      have := this a ha
      simp only [Bool.and_eq_true, bne_iff_ne, ne_eq, Bool.not_eq_true', Bool.and_eq_false_iff,
        decide_eq_false_iff_not, decide_eq_true_eq] at this
      refine ⟨this.1.1.1, this.1.1.2, ?_⟩
      have h3 := this.1.2
      intro hh; rcases h3 with h3 | h3 <;> omega
    · exact ih (fun c' hc' => hs c' (by simp [hc'])) a ha

/-- **f-string literal parts**: brace doubling is undone exactly, and what is left is the
    escaped text, which decodes to the string (previous theorem). -/
theorem fmid_roundtrip (q : Quote) (s : List Nat) :
    undouble (doubleBraces (escape q s)) = some (escape q s) :=
  undouble_doubleBraces _

/-- non-vacuity: a string with a quote, a backslash, a line break, a brace, a lone surrogate
    and an astral code point meets the hypothesis and round-trips -/
example : decodeStr .sq 7 (escape .sq [39, 92, 10, 123, 0xD800, 0x1F600] ++ [39, 43]) =
    some ([39, 92, 10, 123, 0xD800, 0x1F600], [43]) := by decide

end OlVerif.C04
