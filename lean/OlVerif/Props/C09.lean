/-
  C09 -- helper names.  The identifiers the emitted code mentions literally are extracted from
  the source on every run (Gen/Dispatch.lean: `emittedIdentifiers`, `reservedTemplates`).
-/
import OlVerif.Gen.Dispatch
import OlVerif.Lower.Stmt
import OlVerif.Lower.Binder
import OlVerif.Lower.BindersStmt

namespace OlVerif.C09

/-- helper identifiers without the reserved prefix that have been audited:
    * `_`, `__`  : bound and used only inside the chain-call runner's own lambdas,
    * `self`, `it` : parameters of the lambdas of the iterator-wrapper preset,
    * `__class__` : the cell the class loader provides for zero-argument `super()`,
    * `itertools`, `importlib` : the two helper modules the property allows (known finding KF-D40),
    * builtins called by plain name (known finding KF-D41). -/
def auditedHelpers : List String :=
  ["_", "__", "self", "it", "__class__", "itertools", "importlib",
   "__import__", "classmethod", "globals", "hasattr", "iter", "list", "locals", "next", "setattr",
   "slice", "tuple", "type"]

/-- **No new un-prefixed helper**: every identifier the emitted code mentions literally either
    carries the reserved prefix or is on the audited list. -/
theorem emitted_identifiers_audited :
    ∀ id ∈ emittedIdentifiers, id.startsWith "__ol_" = true ∨ id ∈ auditedHelpers := by decide +kernel

/-- every reserved-name template carries the reserved prefix -/
theorem templates_prefixed : ∀ t ∈ reservedTemplates, t.2.startsWith "__ol_" = true := by decide +kernel

/-- the supply hands out a new number each time (the model of `unique_id` is injective) -/
theorem supply_advances (s : Supply) (p : String) : (s.fresh p).2.next = s.next + 1 := rfl

/-- **Two helper names of one conversion never coincide**: names handed out at different counter
    values differ, whatever their purposes (the supply is injective; `fresh_inj` decodes the
    counter back from the name) -/
theorem helper_names_distinct (s t : Supply) (p q : String) (h : s.next ≠ t.next) :
    (s.fresh p).1 ≠ (t.fresh q).1 :=
  fun he => h (fresh_inj s t p q he)

/-- every name the supply hands out starts with the reserved prefix, whatever the purpose -/
theorem helper_names_prefixed (s : Supply) (p : String) : (s.fresh p).1.toList.take 5 = "__ol_".toList := by
  rw [fresh_eq]
  simp [String.toList_append]

/-- the comprehension-local helper variables of while loops and class loaders are reserved names -/
theorem loop_helpers_reserved :
    whileCounter.startsWith "__ol_" = true ∧ classKey.startsWith "__ol_" = true ∧ classValue.startsWith "__ol_" = true := by decide +kernel


/-! ### which names the converted program binds -/

/-- **No foreign binder.**  `bnd e` lists every name bound anywhere inside the expression `e`:
    walrus targets, lambda parameters of every kind, comprehension target names; `srcB body` the
    names the script itself binds (assignment / loop / comprehension targets, def and class names,
    parameters, imported names, walrus targets).  Every name the converted program binds is a name
    the script binds, or carries the reserved prefix `__ol_`, or is one of the seven audited helper
    names (`_`, `__`, `self`, `it`, `__class__`, `itertools`, `importlib`) - for every program, every
    configuration, every symbol table.  Induction over all statement kinds (`Lower/BindersStmt.lean`)
    on top of: the expression transformer adds no binder (`transf_bnd`, 13 mutual functions), every
    namespace of the tree `generateNsp` builds has reserved names, every temporary comes from the
    name supply (`res_fresh`). -/
theorem no_foreign_binders (cfg : Cfg) (root : SymScope) (body : List Stmt) (e : Expr)
    (h : lowerFull cfg root body = .ok e) :
    ∀ x ∈ bnd e, x ∈ srcB body ∨ x.toList.take 5 = "__ol_".toList ∨ x ∈ auditedBinders :=
  lowerFull_bnd cfg root body e h

/-- the expression transformer binds nothing the expression did not bind -/
theorem transformer_adds_no_binder (n : Nsp) (b : List String) (e e' : Expr) (h : transf n b e = .ok e') :
    ∀ x ∈ bnd e', x ∈ bnd e :=
  fun _ hx => transf_bnd n b e e' h hx

end OlVerif.C09
