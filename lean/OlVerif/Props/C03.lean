/-
  C03 -- property theorems (only).  Helper lemmas live in OlVerif/Unparse and OlVerif/Grammar.
-/
import OlVerif.Grammar.Levels

namespace OlVerif.C03

/-- **The ladder never omits parentheses the grammar needs.**  For every child position `s`
    and every ordinary node kind `k`: if the code leaves a `k` child in slot `s` without
    parentheses (`nodePrec k ≤ slotPrec s`, both regenerated from /repo on every run), then the
    grammar produces `k` at a level that may stand at that position. -/
theorem table_sound (s : Slot) (k : Kind) (hk : k.ordinary = true) (hs : s.exprSlot = true)
    (h : nodePrec k ≤ slotPrec s) : kindLv k ≤ slotLv s := by
  cases s <;> cases k <;> first
    | (rename_i op1 op2; cases op1 <;> cases op2 <;> revert h hk hs <;> decide)
    | (rename_i op1; cases op1 <;> revert h hk hs <;> decide)
    | (revert h hk hs; decide)

/-- Starred elements, slices and replacement fields are never parenthesised where the grammar
    allows them (`(*a)`, `(1:2)` and `({x})` would be wrong or change the tree). -/
theorem special_never_wrapped :
    (∀ s ∈ starredSlots, nodePrec .starred ≤ slotPrec s) ∧
    (∀ s ∈ sliceSlots, nodePrec .slice ≤ slotPrec s) ∧
    nodePrec .formattedValue ≤ slotPrec .jsValue := by
  decide

/-- executable form used by the failing-input search agrees with the theorem -/
theorem tableViolations_empty : tableViolations = [] := by decide

end OlVerif.C03
