/-
  C03 -- property theorems (only).  Helper lemmas live in OlVerif/Unparse and OlVerif/Grammar.
-/
import OlVerif.Grammar.Levels
import OlVerif.Unparse.DerivesProof
import OlVerif.Unparse.WFB

namespace OlVerif.C03

/-- **The ladder never omits parentheses the grammar needs.**  For every child position `s`
    and every ordinary node kind `k`: if the code leaves a `k` child in slot `s` without
    parentheses (`nodePrec k ≤ slotPrec s`, both regenerated from /repo on every run), then the
    grammar produces `k` at a level that may stand at that position. -/
theorem table_sound (s : Slot) (k : Kind) (hk : k.ordinary = true) (hs : s.exprSlot = true)
    (h : nodePrec k ≤ slotPrec s) : kindLv k ≤ slotLv s := by
  cases s <;> cases k <;> first
    | (rename_i op1 op2; cases op1 <;> cases op2 <;> revert h hk hs <;> decide)
    | (rename_i op1; cases op1 <;> revert h hk hs <;> decide)
    | (revert h hk hs; decide)

/-- Starred elements, slices and replacement fields are never parenthesised where the grammar
    allows them (`(*a)`, `(1:2)` and `({x})` would be wrong or change the tree). -/
theorem special_never_wrapped :
    (∀ s ∈ starredSlots, nodePrec .starred ≤ slotPrec s) ∧
    (∀ s ∈ sliceSlots, nodePrec .slice ≤ slotPrec s) ∧
    nodePrec .formattedValue ≤ slotPrec .jsValue := by
  decide

/-- executable form used by the failing-input search agrees with the theorem -/
theorem tableViolations_empty : tableViolations = [] := by decide


/-- **Every rendering parses back to the tree it came from.**  For every well-formed expression
    tree `e` (`wfE`: the shapes `ast.parse` produces and the converter emits), of any size and
    depth, the token list the unparser model writes for `e` is derived by CPython's expression
    grammar (`D`, Grammar/Derives.lean, written from python.gram without reference to the
    unparser) at the level `eval` mode expects, **and the tree that derivation builds is `e`**:
    same operators, grouping, operand and argument order, argument kinds, subscript and slice
    shapes, comprehension clauses, lambda signatures, f-string fields, string contents.
    The induction goes over all twelve mutually recursive functions of the unparser; parentheses
    are justified by `table_sound` (regenerated precedences), terminals by the regenerated
    operator tables, string bodies by C04's decoding theorems.
    What the statement leaves to the correspondence check: that the grammar is unambiguous (so
    that *the* parse is this derivation - CPython's PEG parser is deterministic) and lexical
    adjacency (tokens vs `tokenize` of the real text). -/
theorem unparse_derives (e : Expr) (h : wfE e) : D Lv.expression (unparseTop e) e :=
  unparseTop_D e h

/-- the same at every child position: whatever the enclosing quote, a well-formed child rendered
    into slot `s` stands at the level the grammar has there -/
theorem unparse_derives_at (s : Slot) (hs : s.exprSlot = true) (oq : Quote) (e : Expr) (h : wfE e) :
    D (slotLv s) (wrap s (kindOf e) (unparse oq e)) e :=
  wrap_D (ordinary_of_wfE e h) hs (unparse_D oq e h)

/-- the executable well-formedness test the driver evaluates on every corpus tree is sound -/
theorem wf_decidable_sound (e : Expr) (h : wfEB e = true) : wfE e := wfEB_sound e h

/-- non-vacuity: `(a + b) * -c ** d if not x else [*y, f(k=1)][1:2, 3]`-like tree is well-formed -/
example : wfE (.ifExp (.unaryOp .not_ (.name "x"))
    (.binOp (.binOp (.name "a") .add (.name "b")) .mult (.unaryOp .uSub (.binOp (.name "c") .pow (.name "d"))))
    (.subscript (.list [.starred (.name "y"), .call (.name "f") [] [.mk (some "k") (.const (.int 1))]])
      (.tuple [.slice (some (.const (.int 1))) (some (.const (.int 2))) none, .const (.int 3)]))) :=
  wf_decidable_sound _ (by simp [wfEB, wfLB, wfOB, wfEltsB, wfKwsB, wfSliceB, wfSliceEltsB, wfCB, isSlice])

end OlVerif.C03
