/- every property file (and through them every proof module): `lake build OlVerif.All` re-checks the whole development -/
import OlVerif.Props.C01
import OlVerif.Props.C02
import OlVerif.Props.C03
import OlVerif.Props.C04
import OlVerif.Props.C05
import OlVerif.Props.C06
import OlVerif.Props.C07
import OlVerif.Props.C08
import OlVerif.Props.C09
import OlVerif.Props.C10
import OlVerif.Props.C11
import OlVerif.Props.C12
import OlVerif.Props.C13
import OlVerif.Props.C14
import OlVerif.Props.C15
import OlVerif.Props.C16
import OlVerif.Props.C17
