/-
  JSON <-> tree conversion for the line protocol (driver only; not used in proofs).
  The encoding is the one produced / consumed by harness/astjson.py.
-/
import Lean.Data.Json
import OlVerif.Ast

namespace OlVerif
open Lean

abbrev R := Except String

def jArr (j : Json) : R (Array Json) :=
  match j with
  | .arr a => pure a
  | _ => throw s!"expected array, got {j.compress.take 60}"

def jStr (j : Json) : R String :=
  match j with
  | .str s => pure s
  | _ => throw s!"expected string, got {j.compress.take 60}"

def jNat (j : Json) : R Nat :=
  match j.getNat? with
  | .ok n => pure n
  | .error _ => throw s!"expected nat, got {j.compress.take 60}"

def jInt (j : Json) : R Int :=
  match j with
  | .str s => match s.toInt? with
    | some n => pure n
    | none => throw s!"bad int {s}"
  | _ => match j.getInt? with
    | .ok n => pure n
    | .error _ => throw s!"expected int, got {j.compress.take 60}"

def jOptStr (j : Json) : R (Option String) :=
  match j with
  | .null => pure none
  | .str s => pure (some s)
  | _ => throw "expected string or null"

def jStrList (j : Json) : R (List String) := do
  let a ← jArr j
  a.toList.mapM jStr

def binOpOfString : String → R BinOpK
  | "Add" => pure .add | "Sub" => pure .sub | "Mult" => pure .mult | "MatMult" => pure .matMult
  | "Div" => pure .div | "Mod" => pure .mod | "Pow" => pure .pow | "LShift" => pure .lShift
  | "RShift" => pure .rShift | "BitOr" => pure .bitOr | "BitXor" => pure .bitXor
  | "BitAnd" => pure .bitAnd | "FloorDiv" => pure .floorDiv
  | s => throw s!"unknown binop {s}"

def BinOpK.toString : BinOpK → String
  | .add => "Add" | .sub => "Sub" | .mult => "Mult" | .matMult => "MatMult" | .div => "Div"
  | .mod => "Mod" | .pow => "Pow" | .lShift => "LShift" | .rShift => "RShift" | .bitOr => "BitOr"
  | .bitXor => "BitXor" | .bitAnd => "BitAnd" | .floorDiv => "FloorDiv"

def boolOpOfString : String → R BoolOpK
  | "And" => pure .and_ | "Or" => pure .or_ | s => throw s!"unknown boolop {s}"
def BoolOpK.toString : BoolOpK → String | .and_ => "And" | .or_ => "Or"

def unaryOpOfString : String → R UnaryOpK
  | "Invert" => pure .invert | "Not" => pure .not_ | "UAdd" => pure .uAdd | "USub" => pure .uSub
  | s => throw s!"unknown unaryop {s}"
def UnaryOpK.toString : UnaryOpK → String
  | .invert => "Invert" | .not_ => "Not" | .uAdd => "UAdd" | .uSub => "USub"

def cmpOpOfString : String → R CmpOpK
  | "Eq" => pure .eq | "NotEq" => pure .notEq | "Lt" => pure .lt | "LtE" => pure .ltE
  | "Gt" => pure .gt | "GtE" => pure .gtE | "Is" => pure .is_ | "IsNot" => pure .isNot
  | "In" => pure .in_ | "NotIn" => pure .notIn | s => throw s!"unknown cmpop {s}"
def CmpOpK.toString : CmpOpK → String
  | .eq => "Eq" | .notEq => "NotEq" | .lt => "Lt" | .ltE => "LtE" | .gt => "Gt" | .gtE => "GtE"
  | .is_ => "Is" | .isNot => "IsNot" | .in_ => "In" | .notIn => "NotIn"

def constOfJson (tag : String) (payload : Json) : R Const :=
  match tag with
  | "N" => pure .none | "T" => pure .true_ | "F" => pure .false_ | "E" => pure .ellipsis
  | "i" => do pure (.int (← jInt payload))
  | "s" => do
      let a ← jArr payload
      pure (.str (← a.toList.mapM jNat))
  | "b" => do pure (.bytes (← jStr payload))
  | "f" => do pure (.float (← jStr payload))
  | "c" => do pure (.complex (← jStr payload))
  | t => throw s!"unknown constant tag {t}"

mutual
  partial def exprOfJson (j : Json) : R Expr := do
    let a ← jArr j
    if a.size == 0 then throw "empty node"
    let k ← jStr a[0]!
    let opt (x : Json) : R (Option Expr) :=
      match x with
      | .null => pure none
      | _ => do pure (some (← exprOfJson x))
    let lst (x : Json) : R (List Expr) := do
      (← jArr x).toList.mapM exprOfJson
    match k with
    | "Name" => pure (.name (← jStr a[1]!))
    | "Constant" => pure (.const (← constOfJson (← jStr a[1]!) a[2]!))
    | "JoinedStr" => pure (.joinedStr (← lst a[1]!))
    | "FormattedValue" => pure (.formattedValue (← exprOfJson a[1]!) (← jInt a[2]!) (← opt a[3]!))
    | "List" => pure (.list (← lst a[1]!))
    | "Tuple" => pure (.tuple (← lst a[1]!))
    | "Set" => pure (.set (← lst a[1]!))
    | "Dict" => do
        let ks ← (← jArr a[1]!).toList.mapM opt
        let vs ← lst a[2]!
        pure (.dict ((ks.zip vs).map fun (k, v) => DictItem.mk k v))
    | "Starred" => pure (.starred (← exprOfJson a[1]!))
    | "Attribute" => pure (.attribute (← exprOfJson a[1]!) (← jStr a[2]!))
    | "Subscript" => pure (.subscript (← exprOfJson a[1]!) (← exprOfJson a[2]!))
    | "Slice" => pure (.slice (← opt a[1]!) (← opt a[2]!) (← opt a[3]!))
    | "Call" => pure (.call (← exprOfJson a[1]!) (← lst a[2]!)
                        (← (← jArr a[3]!).toList.mapM keywordOfJson))
    | "BinOp" => pure (.binOp (← exprOfJson a[1]!) (← binOpOfString (← jStr a[2]!)) (← exprOfJson a[3]!))
    | "BoolOp" => pure (.boolOp (← boolOpOfString (← jStr a[1]!)) (← lst a[2]!))
    | "UnaryOp" => pure (.unaryOp (← unaryOpOfString (← jStr a[1]!)) (← exprOfJson a[2]!))
    | "Compare" => pure (.compare (← exprOfJson a[1]!)
                        (← (← jStrList a[2]!).mapM cmpOpOfString) (← lst a[3]!))
    | "IfExp" => pure (.ifExp (← exprOfJson a[1]!) (← exprOfJson a[2]!) (← exprOfJson a[3]!))
    | "Lambda" => pure (.lambda (← argumentsOfJson a[1]!) (← exprOfJson a[2]!))
    | "NamedExpr" => pure (.namedExpr (← jStr a[1]!) (← exprOfJson a[2]!))
    | "ListComp" => pure (.listComp (← exprOfJson a[1]!) (← (← jArr a[2]!).toList.mapM compOfJson))
    | "SetComp" => pure (.setComp (← exprOfJson a[1]!) (← (← jArr a[2]!).toList.mapM compOfJson))
    | "DictComp" => pure (.dictComp (← exprOfJson a[1]!) (← exprOfJson a[2]!)
                        (← (← jArr a[3]!).toList.mapM compOfJson))
    | "GeneratorExp" => pure (.generatorExp (← exprOfJson a[1]!) (← (← jArr a[2]!).toList.mapM compOfJson))
    | "Yield" => pure (.yield_ (← opt a[1]!))
    | "YieldFrom" => pure (.yieldFrom (← exprOfJson a[1]!))
    | "Await" => pure (.await (← exprOfJson a[1]!))
    | _ => throw s!"unknown expr kind {k}"
  partial def keywordOfJson (j : Json) : R Keyword := do
    let a ← jArr j
    pure (.mk (← jOptStr a[0]!) (← exprOfJson a[1]!))
  partial def compOfJson (j : Json) : R Comp := do
    let a ← jArr j
    pure (.mk (← exprOfJson a[0]!) (← exprOfJson a[1]!)
      (← (← jArr a[2]!).toList.mapM exprOfJson) ((← jNat a[3]!) != 0))
  partial def argumentsOfJson (j : Json) : R Arguments := do
    let a ← jArr j
    let optE (x : Json) : R (Option Expr) :=
      match x with
      | .null => pure none
      | _ => do pure (some (← exprOfJson x))
    pure (.mk (← jStrList a[0]!) (← jStrList a[1]!) (← jOptStr a[2]!) (← jStrList a[3]!)
      (← (← jArr a[4]!).toList.mapM optE) (← jOptStr a[5]!)
      (← (← jArr a[6]!).toList.mapM exprOfJson))
end

def aliasOfJson (j : Json) : R Alias := do
  let a ← jArr j
  pure { name := (← jStr a[0]!), asname := (← jOptStr a[1]!) }

partial def stmtOfJson (j : Json) : R Stmt := do
  let a ← jArr j
  let k ← jStr a[0]!
  let body (x : Json) : R (List Stmt) := do (← jArr x).toList.mapM stmtOfJson
  let exprs (x : Json) : R (List Expr) := do (← jArr x).toList.mapM exprOfJson
  let opt (x : Json) : R (Option Expr) :=
    match x with
    | .null => pure none
    | _ => do pure (some (← exprOfJson x))
  match k with
  | "Expr" => pure (.expr (← exprOfJson a[1]!))
  | "If" => pure (.if_ (← exprOfJson a[1]!) (← body a[2]!) (← body a[3]!))
  | "While" => pure (.while_ (← exprOfJson a[1]!) (← body a[2]!) (← body a[3]!))
  | "For" => pure (.for_ (← exprOfJson a[1]!) (← exprOfJson a[2]!) (← body a[3]!) (← body a[4]!))
  | "Break" => pure .break_
  | "Continue" => pure .continue_
  | "Pass" => pure .pass_
  | "Assign" => pure (.assign (← exprs a[1]!) (← exprOfJson a[2]!))
  | "AnnAssign" => pure (.annAssign (← exprOfJson a[1]!) (← exprOfJson a[2]!) (← opt a[3]!))
  | "AugAssign" => pure (.augAssign (← exprOfJson a[1]!) (← binOpOfString (← jStr a[2]!)) (← exprOfJson a[3]!))
  | "FunctionDef" => pure (.functionDef (← jStr a[1]!) (← argumentsOfJson a[2]!) (← body a[3]!)
                        (← exprs a[4]!) (← jNat a[5]!))
  | "Return" => pure (.return_ (← opt a[1]!))
  | "Global" => pure (.global_ (← jStrList a[1]!))
  | "Nonlocal" => pure (.nonlocal_ (← jStrList a[1]!))
  | "ClassDef" => pure (.classDef (← jStr a[1]!) (← exprs a[2]!)
                        (← (← jArr a[3]!).toList.mapM keywordOfJson) (← body a[4]!)
                        (← exprs a[5]!) (← jNat a[6]!))
  | "Import" => pure (.import_ (← (← jArr a[1]!).toList.mapM aliasOfJson))
  | "ImportFrom" => pure (.importFrom (← jOptStr a[1]!) (← (← jArr a[2]!).toList.mapM aliasOfJson) (← jNat a[3]!))
  | "Other" => pure (.other (← jStr a[1]!) (← (← jArr a[2]!).toList.mapM body) (← exprs a[3]!))
  | _ => throw s!"unknown stmt kind {k}"

/- Encoding -/

def jOfOptStr : Option String → Json
  | none => .null
  | some s => .str s

def constToJson : Const → Array Json
  | .none => #["N", .null] | .true_ => #["T", .null] | .false_ => #["F", .null]
  | .ellipsis => #["E", .null]
  | .int n => #["i", .str (toString n)]
  | .str cps => #["s", .arr (cps.map (fun (n : Nat) => (n : Json))).toArray]
  | .bytes r => #["b", .str r]
  | .float r => #["f", .str r]
  | .complex r => #["c", .str r]

mutual
  partial def exprToJson (e : Expr) : Json :=
    let l (xs : List Expr) : Json := .arr (xs.map exprToJson).toArray
    let o (x : Option Expr) : Json := match x with | none => .null | some e => exprToJson e
    let gens (gs : List Comp) : Json := .arr (gs.map compToJson).toArray
    match e with
    | .name id => .arr #["Name", .str id]
    | .const c => .arr (#[Json.str "Constant"] ++ constToJson c)
    | .joinedStr vs => .arr #["JoinedStr", l vs]
    | .formattedValue v c s => .arr #["FormattedValue", exprToJson v, .str (toString c), o s]
    | .list es => .arr #["List", l es]
    | .tuple es => .arr #["Tuple", l es]
    | .set es => .arr #["Set", l es]
    | .dict its => .arr #["Dict", .arr (its.map fun | .mk k _ => o k).toArray,
        .arr (its.map fun | .mk _ v => exprToJson v).toArray]
    | .starred v => .arr #["Starred", exprToJson v]
    | .attribute v a => .arr #["Attribute", exprToJson v, .str a]
    | .subscript v s => .arr #["Subscript", exprToJson v, exprToJson s]
    | .slice a b c => .arr #["Slice", o a, o b, o c]
    | .call f as ks => .arr #["Call", exprToJson f, l as, .arr (ks.map keywordToJson).toArray]
    | .binOp a op b => .arr #["BinOp", exprToJson a, .str op.toString, exprToJson b]
    | .boolOp op vs => .arr #["BoolOp", .str op.toString, l vs]
    | .unaryOp op v => .arr #["UnaryOp", .str op.toString, exprToJson v]
    | .compare a ops cs => .arr #["Compare", exprToJson a,
        .arr (ops.map (fun op => Json.str op.toString)).toArray, l cs]
    | .ifExp t b e => .arr #["IfExp", exprToJson t, exprToJson b, exprToJson e]
    | .lambda as b => .arr #["Lambda", argumentsToJson as, exprToJson b]
    | .namedExpr t v => .arr #["NamedExpr", .str t, exprToJson v]
    | .listComp e gs => .arr #["ListComp", exprToJson e, gens gs]
    | .setComp e gs => .arr #["SetComp", exprToJson e, gens gs]
    | .dictComp k v gs => .arr #["DictComp", exprToJson k, exprToJson v, gens gs]
    | .generatorExp e gs => .arr #["GeneratorExp", exprToJson e, gens gs]
    | .yield_ v => .arr #["Yield", o v]
    | .yieldFrom v => .arr #["YieldFrom", exprToJson v]
    | .await v => .arr #["Await", exprToJson v]
  partial def keywordToJson : Keyword → Json
    | .mk a v => .arr #[jOfOptStr a, exprToJson v]
  partial def compToJson : Comp → Json
    | .mk t i ifs a => .arr #[exprToJson t, exprToJson i, .arr (ifs.map exprToJson).toArray,
        ((if a then 1 else 0 : Nat) : Json)]
  partial def argumentsToJson : Arguments → Json
    | .mk po as va ko kd kw ds =>
      let sl (xs : List String) : Json := .arr (xs.map Json.str).toArray
      .arr #[sl po, sl as, jOfOptStr va, sl ko,
        .arr (kd.map (fun x => match x with | none => Json.null | some e => exprToJson e)).toArray,
        jOfOptStr kw, .arr (ds.map exprToJson).toArray]
end

end OlVerif
