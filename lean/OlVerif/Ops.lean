/- Dispatch of the line protocol operations onto the executable models. -/
import OlVerif.Json
import OlVerif.Unparse.StrLit

namespace OlVerif
open Lean

def cpsToJson (cps : List Nat) : Json :=
  if cps.all (fun c => c < 0xD800 ∨ (0xDFFF < c ∧ c < 0x110000)) then
    .str (String.ofList (cps.map Char.ofNat))
  else .arr (cps.map (fun (n : Nat) => (n : Json))).toArray

/-- canonical form for the comparison with `tokenize`: adjacent literal parts of an f-string
    are one token, empty ones are none -/
def canonToks : List Tok → List Tok
  | .fmid a :: .fmid b :: rest => canonToks (.fmid (a ++ b) :: rest)
  | .fmid [] :: rest => canonToks rest
  | t :: rest => t :: canonToks rest
  | [] => []
termination_by ts => ts.length

def toksToJson (ts : List Tok) : Json :=
  .arr ((canonToks ts).map fun t => cpsToJson t.text).toArray

def errJ (e : String) : Json := Json.mkObj [("error", .str e)]

def opUnparse (j : Json) : Json :=
  match j.getObjVal? "e" with
  | .error e => errJ e
  | .ok ej =>
    match exprOfJson ej with
    | .error e => errJ e
    | .ok e => Json.mkObj [("toks", toksToJson (unparseTop e))]

def opEscape (j : Json) : Json :=
  match j.getObjVal? "s", j.getObjVal? "q" with
  | .ok (.arr a), .ok (.str q) =>
    match a.toList.mapM jNat with
    | .ok cps => Json.mkObj [("r", cpsToJson (escape (if q == "'" then .sq else .dq) cps))]
    | .error e => errJ e
  | _, _ => errJ "escape: bad arguments"

/-- reference decoder: `t` = text after the opening quote -/
def opDecode (j : Json) : Json :=
  match j.getObjVal? "t", j.getObjVal? "q" with
  | .ok (.arr a), .ok (.str q) =>
    match a.toList.mapM jNat with
    | .ok cps =>
      match decodeStr (if q == "'" then .sq else .dq) (cps.length + 1) cps with
      | some (s, rest) => Json.mkObj [("s", .arr (s.map (fun (n : Nat) => (n : Json))).toArray),
                                      ("rest", (rest.length : Nat))]
      | none => Json.mkObj [("s", .null)]
    | .error e => errJ e
  | _, _ => errJ "decode: bad arguments"

def handle (j : Json) : Json :=
  match j.getObjVal? "op" with
  | .ok (.str "unparse") => opUnparse j
  | .ok (.str "escape") => opEscape j
  | .ok (.str "decode") => opDecode j
  | .ok (.str "ping") => Json.mkObj [("pong", .bool true)]
  | _ => errJ "unknown op"

end OlVerif
