/- Dispatch of the line protocol operations onto the executable models. -/
import OlVerif.Json
import OlVerif.Unparse.StrLit
import OlVerif.Lower.Stmt
import OlVerif.Api.Model

namespace OlVerif
open Lean

def cpsToJson (cps : List Nat) : Json :=
  if cps.all (fun c => c < 0xD800 ∨ (0xDFFF < c ∧ c < 0x110000)) then
    .str (String.ofList (cps.map Char.ofNat))
  else .arr (cps.map (fun (n : Nat) => (n : Json))).toArray

/-- canonical form for the comparison with `tokenize`: adjacent literal parts of an f-string
    are one token, empty ones are none -/
def canonToks : List Tok → List Tok
  | .fmid a :: .fmid b :: rest => canonToks (.fmid (a ++ b) :: rest)
  | .fmid [] :: rest => canonToks rest
  | t :: rest => t :: canonToks rest
  | [] => []
termination_by ts => ts.length

def toksToJson (ts : List Tok) : Json :=
  .arr ((canonToks ts).map fun t => cpsToJson t.text).toArray

def errJ (e : String) : Json := Json.mkObj [("error", .str e)]

def opUnparse (j : Json) : Json :=
  match j.getObjVal? "e" with
  | .error e => errJ e
  | .ok ej =>
    match exprOfJson ej with
    | .error e => errJ e
    | .ok e => Json.mkObj [("toks", toksToJson (unparseTop e))]

def opEscape (j : Json) : Json :=
  match j.getObjVal? "s", j.getObjVal? "q" with
  | .ok (.arr a), .ok (.str q) =>
    match a.toList.mapM jNat with
    | .ok cps => Json.mkObj [("r", cpsToJson (escape (if q == "'" then .sq else .dq) cps))]
    | .error e => errJ e
  | _, _ => errJ "escape: bad arguments"

/-- reference decoder: `t` = text after the opening quote -/
def opDecode (j : Json) : Json :=
  match j.getObjVal? "t", j.getObjVal? "q" with
  | .ok (.arr a), .ok (.str q) =>
    match a.toList.mapM jNat with
    | .ok cps =>
      match decodeStr (if q == "'" then .sq else .dq) (cps.length + 1) cps with
      | some (s, rest) => Json.mkObj [("s", .arr (s.map (fun (n : Nat) => (n : Json))).toArray),
                                      ("rest", (rest.length : Nat))]
      | none => Json.mkObj [("s", .null)]
    | .error e => errJ e
  | _, _ => errJ "decode: bad arguments"

def symInfoOfJson (j : Json) : R SymInfo := do
  let a ← jArr j
  let bits ← jNat a[1]!
  let b (i : Nat) : Bool := (bits >>> i) % 2 == 1
  pure { name := (← jStr a[0]!), isAssigned := b 0, isParameter := b 1, isGlobal := b 2,
         isDeclaredGlobal := b 3, isNonlocal := b 4, isFree := b 5, isImported := b 6 }

partial def symScopeOfJson (j : Json) : R SymScope := do
  let a ← jArr j
  let kind ← match (← jStr a[1]!) with
    | "module" => pure ScopeKind.module
    | "function" => pure ScopeKind.function
    | "class" => pure ScopeKind.class_
    | _ => pure ScopeKind.other_
  pure (.mk (← jStr a[0]!) kind (← jNat a[2]!) (← (← jArr a[3]!).toList.mapM symInfoOfJson)
    (← jStrList a[4]!) (← jStrList a[5]!) (← jStrList a[6]!) (← jStrList a[7]!)
    (← (← jArr a[8]!).toList.mapM symScopeOfJson))

def cfgOfJson (j : Json) : R Cfg := do
  let a ← jArr j
  let w ← match (← jStr a[0]!) with
    | "list" => pure Wrapper.list | "chain_call" => pure Wrapper.chainCall | x => throw s!"wrapper {x}"
  let i ← match (← jStr a[1]!) with
    | "if_expr" => pure IfStyle.ifExpr | "short_circuit" => pure IfStyle.shortCircuit | x => throw s!"if_style {x}"
  pure { wrapper := w, ifStyle := i }

def opLower (j : Json) : Json :=
  let r : R Json := do
    let cfg ← cfgOfJson (← j.getObjVal? "cfg")
    let sym ← symScopeOfJson (← j.getObjVal? "sym")
    let body ← (← jArr (← j.getObjVal? "body")).toList.mapM stmtOfJson
    match lowerFull cfg sym body with
    | .ok e => pure (Json.mkObj [("ok", exprToJson e)])
    | .error err => pure (Json.mkObj [("err", .str err.cls)])
  match r with
  | .ok j => j
  | .error e => errJ e

def optsToJson (o : Opts) : Json := Json.mkObj (o.map fun (n, v) => (n, Json.str v))

def apiOpOfJson (j : Json) : R ApiOp := do
  let a ← jArr j
  match (← jStr a[0]!) with
  | "new" => pure .new
  | "set" => pure (.set (← jNat a[1]!) (← jStr a[2]!) (← jStr a[3]!))
  | "convert" => pure (.convert (← jNat a[1]!) (← jNat a[2]!))
  | "convertDefault" => pure (.convertDefault (← jNat a[1]!))
  | "reseed" => pure (.reseed (← jNat a[1]!))
  | k => throw s!"api op {k}"

def apiOutToJson : ApiOut → Json
  | .none => "none"
  | .valueError => "ValueError"
  | .noSuchObject => "noobj"
  | .text p o => .arr #["text", (p : Nat), optsToJson o]

def opApi (j : Json) : Json :=
  let r : R Json := do
    let ops ← (← jArr (← j.getObjVal? "ops")).toList.mapM apiOpOfJson
    pure (Json.mkObj [("outs", .arr ((apiRun {} ops).2.map apiOutToJson).toArray)])
  match r with | .ok j => j | .error e => errJ e

def opCli (j : Json) : Json :=
  let r : R Json := do
    let input ← jStr (← j.getObjVal? "input")
    let output ← jOptStr (← j.getObjVal? "output")
    let c ← jStrList (← j.getObjVal? "c")
    let un ← jOptStr (← j.getObjVal? "unparser")
    let files ← jStrList (← j.getObjVal? "fs")
    let fs : Fs := files.map fun f => (f, "<src>")
    let res := cli { input := input, output := output, cOpts := c, unparserFlag := un } fs
    pure (Json.mkObj [
      ("exit", match res.exit with | .ok => "ok" | .error w => Json.str ("error:" ++ w)),
      ("written", match res.written with | some (f, o) => .arr #[.str f, optsToJson o] | none => .null),
      ("stdout", match res.stdout with | some (_, o) => optsToJson o | none => .null),
      ("files", .arr (res.fs.map fun (f, c) => Json.arr #[.str f, .str c]).toArray)])
  match r with | .ok j => j | .error e => errJ e

def handle (j : Json) : Json :=
  match j.getObjVal? "op" with
  | .ok (.str "unparse") => opUnparse j
  | .ok (.str "escape") => opEscape j
  | .ok (.str "decode") => opDecode j
  | .ok (.str "lower") => opLower j
  | .ok (.str "api") => opApi j
  | .ok (.str "cli") => opCli j
  | .ok (.str "ping") => Json.mkObj [("pong", .bool true)]
  | _ => errJ "unknown op"

end OlVerif
