/- Dispatch of the line protocol operations onto the executable models. -/
import OlVerif.Json
import OlVerif.Unparse.StrLit
import OlVerif.Unparse.WFB
import OlVerif.Lower.Stmt
import OlVerif.Lower.Reject
import OlVerif.Order.Trace
import OlVerif.Lower.Binders
import OlVerif.Sem.Decide
import OlVerif.Api.Model
import OlVerif.Ctrl.Run
import OlVerif.Import.Bridge

namespace OlVerif
open Lean

def cpsToJson (cps : List Nat) : Json :=
  if cps.all (fun c => c < 0xD800 ∨ (0xDFFF < c ∧ c < 0x110000)) then
    .str (String.ofList (cps.map Char.ofNat))
  else .arr (cps.map (fun (n : Nat) => (n : Json))).toArray

/-- canonical form for the comparison with `tokenize`: adjacent literal parts of an f-string
    are one token, empty ones are none -/
def canonToks : List Tok → List Tok
  | .fmid a :: .fmid b :: rest => canonToks (.fmid (a ++ b) :: rest)
  | .fmid [] :: rest => canonToks rest
  | t :: rest => t :: canonToks rest
  | [] => []
termination_by ts => ts.length

def toksToJson (ts : List Tok) : Json :=
  .arr ((canonToks ts).map fun t => cpsToJson t.text).toArray

def errJ (e : String) : Json := Json.mkObj [("error", .str e)]

def opUnparse (j : Json) : Json :=
  match j.getObjVal? "e" with
  | .error e => errJ e
  | .ok ej =>
    match exprOfJson ej with
    | .error e => errJ e
    -- `wf`: the hypothesis of C03.unparse_derives, evaluated on this tree
    | .ok e => Json.mkObj [("toks", toksToJson (unparseTop e)), ("wf", .bool (wfEB e))]

def opEscape (j : Json) : Json :=
  match j.getObjVal? "s", j.getObjVal? "q" with
  | .ok (.arr a), .ok (.str q) =>
    match a.toList.mapM jNat with
    | .ok cps => Json.mkObj [("r", cpsToJson (escape (if q == "'" then .sq else .dq) cps))]
    | .error e => errJ e
  | _, _ => errJ "escape: bad arguments"

/-- reference decoder: `t` = text after the opening quote -/
def opDecode (j : Json) : Json :=
  match j.getObjVal? "t", j.getObjVal? "q" with
  | .ok (.arr a), .ok (.str q) =>
    match a.toList.mapM jNat with
    | .ok cps =>
      match decodeStr (if q == "'" then .sq else .dq) (cps.length + 1) cps with
      | some (s, rest) => Json.mkObj [("s", .arr (s.map (fun (n : Nat) => (n : Json))).toArray),
                                      ("rest", (rest.length : Nat))]
      | none => Json.mkObj [("s", .null)]
    | .error e => errJ e
  | _, _ => errJ "decode: bad arguments"

def symInfoOfJson (j : Json) : R SymInfo := do
  let a ← jArr j
  let bits ← jNat a[1]!
  let b (i : Nat) : Bool := (bits >>> i) % 2 == 1
  pure { name := (← jStr a[0]!), isAssigned := b 0, isParameter := b 1, isGlobal := b 2,
         isDeclaredGlobal := b 3, isNonlocal := b 4, isFree := b 5, isImported := b 6, isLocal := b 7 }

partial def symScopeOfJson (j : Json) : R SymScope := do
  let a ← jArr j
  let kind ← match (← jStr a[1]!) with
    | "module" => pure ScopeKind.module
    | "function" => pure ScopeKind.function
    | "class" => pure ScopeKind.class_
    | _ => pure ScopeKind.other_
  pure (.mk (← jStr a[0]!) kind (← jNat a[2]!) (← (← jArr a[3]!).toList.mapM symInfoOfJson)
    (← jStrList a[4]!) (← jStrList a[5]!) (← jStrList a[6]!) (← jStrList a[7]!)
    (← (← jArr a[8]!).toList.mapM symScopeOfJson))

def cfgOfJson (j : Json) : R Cfg := do
  let a ← jArr j
  let w ← match (← jStr a[0]!) with
    | "list" => pure Wrapper.list | "chain_call" => pure Wrapper.chainCall | x => throw s!"wrapper {x}"
  let i ← match (← jStr a[1]!) with
    | "if_expr" => pure IfStyle.ifExpr | "short_circuit" => pure IfStyle.shortCircuit | x => throw s!"if_style {x}"
  pure { wrapper := w, ifStyle := i }

def opLower (j : Json) : Json :=
  let r : R Json := do
    let cfg ← cfgOfJson (← j.getObjVal? "cfg")
    let sym ← symScopeOfJson (← j.getObjVal? "sym")
    let body ← (← jArr (← j.getObjVal? "body")).toList.mapM stmtOfJson
    -- `bad`: the hypothesis of C08.reject_at_any_depth, evaluated on this program
    match lowerFull cfg sym body with
    -- `tr_t` / `tr_f`: the probes the output evaluates, in order, under the all-true / all-false oracle (M-ORDER)
    | .ok e => pure (Json.mkObj [("ok", exprToJson e), ("bad", .bool (badModule body)), ("wf", .bool (wfEB e)),
        ("tr_t", .arr ((tr (fun _ => true) e).map fun (k : Nat) => Json.num (JsonNumber.fromNat k)).toArray),
        ("tr_f", .arr ((tr (fun _ => false) e).map fun (k : Nat) => Json.num (JsonNumber.fromNat k)).toArray),
        -- `bnd`: the names the output binds (C09.no_foreign_binders speaks about this list)
        ("bnd", .arr ((bnd e).eraseDups.map Json.str).toArray),
        -- `simple`: the hypothesis of C01.module_straightline_semantics (M-EVAL), evaluated on this program
        ("simple", .bool (Sem.simpleModuleB body)),
        -- `simple_w`: the hypothesis of C01.module_with_while_semantics
        ("simple_w", .bool (Sem.simpleModuleWB body)),
        -- `imp_ok`: the hypothesis of C14.plan_is_model (text-level = path-level view of every imported name)
        ("imp_ok", .bool (importsOKL body))])
    | .error err => pure (Json.mkObj [("err", .str err.cls), ("bad", .bool (badModule body))])
  match r with
  | .ok j => j
  | .error e => errJ e

def optsToJson (o : Opts) : Json := Json.mkObj (o.map fun (n, v) => (n, Json.str v))

def apiOpOfJson (j : Json) : R ApiOp := do
  let a ← jArr j
  match (← jStr a[0]!) with
  | "new" => pure .new
  | "set" => pure (.set (← jNat a[1]!) (← jStr a[2]!) (← jStr a[3]!))
  | "convert" => pure (.convert (← jNat a[1]!) (← jNat a[2]!))
  | "convertDefault" => pure (.convertDefault (← jNat a[1]!))
  | "reseed" => pure (.reseed (← jNat a[1]!))
  | k => throw s!"api op {k}"

def apiOutToJson : ApiOut → Json
  | .none => "none"
  | .valueError => "ValueError"
  | .noSuchObject => "noobj"
  | .text p o => .arr #["text", (p : Nat), optsToJson o]

def opApi (j : Json) : Json :=
  let r : R Json := do
    let ops ← (← jArr (← j.getObjVal? "ops")).toList.mapM apiOpOfJson
    pure (Json.mkObj [("outs", .arr ((apiRun {} ops).2.map apiOutToJson).toArray)])
  match r with | .ok j => j | .error e => errJ e

def opCli (j : Json) : Json :=
  let r : R Json := do
    let input ← jStr (← j.getObjVal? "input")
    let output ← jOptStr (← j.getObjVal? "output")
    let c ← jStrList (← j.getObjVal? "c")
    let un ← jOptStr (← j.getObjVal? "unparser")
    let files ← jStrList (← j.getObjVal? "fs")
    let fs : Fs := files.map fun f => (f, "<src>")
    let res := cli { input := input, output := output, cOpts := c, unparserFlag := un } fs
    pure (Json.mkObj [
      ("exit", match res.exit with | .ok => "ok" | .error w => Json.str ("error:" ++ w)),
      ("written", match res.written with | some (f, o) => .arr #[.str f, optsToJson o] | none => .null),
      ("stdout", match res.stdout with | some (_, o) => optsToJson o | none => .null),
      ("files", .arr (res.fs.map fun (f, c) => Json.arr #[.str f, .str c]).toArray)])
  match r with | .ok j => j | .error e => errJ e

/-! ### M-CTRL: skeletons, a concrete logging world, emitted trees and traces -/

open Ctrl in
partial def skOfJson (j : Json) : R Ctrl.Sk := do
  let a ← jArr j
  let blk (x : Json) : R (List Ctrl.Sk) := do (← jArr x).toList.mapM skOfJson
  match (← jStr a[0]!) with
  | "atom" => pure (.atom (← jNat a[1]!))
  | "pass" => pure .pass
  | "brk" => pure .brk
  | "cont" => pure .cont
  | "ret" => match a[1]! with
    | .null => pure (.ret none)
    | x => do pure (.ret (some (← jNat x)))
  | "if" => pure (.ite (← jNat a[1]!) (← blk a[2]!) (← blk a[3]!))
  | "while" => pure (.whl (← jNat a[1]!) (← blk a[2]!) (← blk a[3]!))
  | "for" => pure (.for_ (← jNat a[1]!) (← blk a[2]!) (← blk a[3]!))
  | k => throw s!"skeleton kind {k}"

/-- state of the concrete world: the event log and the bookkeeping of the probes -/
structure CSt where
  ev : Array String := #[]
  condCalls : List (Nat × Nat) := []
  itCalls : List (Nat × Nat) := []
  iters : List (Nat × Nat × Nat × Nat) := []     -- loop id ↦ (open index, length, position)

def bump (l : List (Nat × Nat)) (i : Nat) : Nat × List (Nat × Nat) :=
  let k := (l.lookup i).getD 0
  (k, (i, k + 1) :: l.filter (·.1 != i))

/-- the same deterministic schedule as `harness/gen_skel.py:World` -/
def cworld (s : Nat) : Ctrl.World CSt where
  atom i st :=
    let ev := st.ev.push s!"m {i}"
    ({ st with ev := ev }, decide ((s * 7 + i * 3 + ev.size) % 4 ≥ 2))
  cond i st :=
    let (k, cc) := bump st.condCalls i
    let st := { st with ev := st.ev.push s!"c {i} {k}", condCalls := cc }
    if k ≥ 5 then (st, false)
    else (st, decide ((s * 2654435761 + i * 40503 + k * 9973 + s / 8) % 7 ≥ 3))
  iterOpen i st :=
    let (k, ic) := bump st.itCalls i
    let n := (s + i * 5 + k) % 4
    { st with ev := (st.ev.push s!"it {i} {k}").push s!"iter {i} {k}", itCalls := ic,
              iters := (i, k, n, 0) :: st.iters.filter (·.1 != i) }
  iterNext i st :=
    match st.iters.lookup i with
    | none => (st, false)
    | some (k, n, j) =>
      if j ≥ n then ({ st with ev := st.ev.push s!"next {i} {k} stop" }, false)
      else ({ st with ev := st.ev.push s!"next {i} {k} {j}", iters := (i, k, n, j + 1) :: st.iters.filter (·.1 != i) }, true)
  itemTruthy i st :=
    match st.iters.lookup i with
    | some (_, _, j) => j != 1          -- the item just produced is j - 1
    | none => false
  retv i st := ({ st with ev := st.ev.push s!"r {i}" }, i * 3 + (s + i) % 3, true)

def sigToJson : Ctrl.Sig → Json
  | .normal => "normal" | .brk => "brk" | .cont => "cont"
  | .ret none => .arr #["ret", .null]
  | .ret (some v) => .arr #["ret", (v : Nat)]

def opCtrl (j : Json) : Json :=
  let r : R Json := do
    let cfg ← cfgOfJson (← j.getObjVal? "cfg")
    let inFn := (← jStr (← j.getObjVal? "placement")) == "function"
    let body ← (← jArr (← j.getObjVal? "sk")).toList.mapM skOfJson
    let tree := exprToJson (Ctrl.emitTop cfg.ifStyle cfg.wrapper inFn body)
    let mut runs : Array Json := #[]
    for sj in (← jArr (← j.getObjVal? "schedules")) do
      let s ← jNat sj
      let W := cworld s
      let src := Ctrl.runS W 4000 (.block body) {}
      let ts := if inFn then Ctrl.lowerFn cfg.ifStyle cfg.wrapper body else Ctrl.lowerModule cfg.ifStyle cfg.wrapper body
      let tgt := Ctrl.runT W 8000 (.seq ts) { st := {}, fl := fun _ => false, rv := none }
      let srcJ := match src with
        | some (st, sig) => Json.mkObj [("ev", .arr (st.ev.map Json.str)), ("sig", sigToJson sig)]
        | none => Json.mkObj [("fuel", true)]
      let tgtJ := match tgt with
        | some (st, _) => Json.mkObj [("ev", .arr (st.st.ev.map Json.str)),
            ("rv", match st.rv with | some v => (v : Nat) | none => Json.null)]
        | none => Json.mkObj [("fuel", true)]
      runs := runs.push (Json.mkObj [("s", (s : Nat)), ("src", srcJ), ("tgt", tgtJ)])
    pure (Json.mkObj [("tree", tree), ("runs", .arr runs)])
  match r with | .ok j => j | .error e => errJ e

def handle (j : Json) : Json :=
  match j.getObjVal? "op" with
  | .ok (.str "unparse") => opUnparse j
  | .ok (.str "escape") => opEscape j
  | .ok (.str "decode") => opDecode j
  | .ok (.str "lower") => opLower j
  | .ok (.str "api") => opApi j
  | .ok (.str "cli") => opCli j
  | .ok (.str "ctrl") => opCtrl j
  | .ok (.str "ping") => Json.mkObj [("pong", .bool true)]
  | _ => errJ "unknown op"

end OlVerif
