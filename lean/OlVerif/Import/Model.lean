/-
  M-IMPORT.  Reference: what the import *statements* do (language reference 7.11, import
  system 5.3 / 5.4.2).  Code: what the emitted *calls* do, by the documented contracts of
  `__import__(name, globals, locals, fromlist, level)` and `importlib.import_module(name)`.
  Both sides act on the same abstract import state (the modules loaded so far, in order) and
  bind objects to names; the theorems say they coincide.
-/
namespace OlVerif

abbrev ModName := List String          -- a.b.c = ["a","b","c"]

structure ImpSt where
  loaded : List ModName := []           -- sys.modules, in order of first import
  deriving Repr, DecidableEq

/-- import one module if it is not loaded yet (its top-level code runs once) -/
def ImpSt.load (st : ImpSt) (m : ModName) : ImpSt :=
  if st.loaded.contains m then st else { loaded := st.loaded ++ [m] }

/-- importing `a.b.c` imports `a`, `a.b`, `a.b.c`, in that order -/
def importChain (st : ImpSt) (pre : ModName) : ModName → ImpSt
  | [] => st
  | x :: rest => importChain (st.load (pre ++ [x])) (pre ++ [x]) rest

inductive Obj
  | module (m : ModName)
  | attr (m : ModName) (name : String)     -- an attribute of a module that is not a submodule
  deriving Repr, DecidableEq

/-- the world: which names of a package are submodules (as opposed to plain attributes) -/
abbrev IsSubmodule := ModName → String → Bool

/-- absolute name of a relative import: `level` dots from package `pkg` -/
def resolveRel (pkg : ModName) (level : Nat) (m : ModName) : ModName :=
  if level = 0 then m else pkg.take (pkg.length - (level - 1)) ++ m

/-! ### reference: the statements -/

/-- `import a.b.c [as x]`: (new state, name bound, object bound) -/
def pyImport (st : ImpSt) (name : ModName) (asname : Option String) : ImpSt × String × Obj :=
  let st' := importChain st [] name
  match asname with
  | some a => (st', a, .module name)                       -- the module itself
  | none => (st', name.headD "", .module (name.take 1))    -- the top-level package

/-- one name of `from m import n [as x]` (module `m` already imported): a submodule not yet
    loaded is imported, an attribute is read -/
def pyFromName (sub : IsSubmodule) (st : ImpSt) (m : ModName) (n : String) (asname : Option String) :
    ImpSt × String × Obj :=
  if sub m n then (st.load (m ++ [n]), asname.getD n, .module (m ++ [n]))
  else (st, asname.getD n, .attr m n)

/-! ### code: the emitted calls -/

/-- `__import__(name)` with an empty fromlist: imports the chain, returns the *top-level* package -/
def builtinImportTop (st : ImpSt) (name : ModName) : ImpSt × Obj :=
  (importChain st [] name, .module (name.take 1))

/-- `importlib.import_module(name)`: imports the chain, returns the module named -/
def importModule (st : ImpSt) (name : ModName) : ImpSt × Obj :=
  (importChain st [] name, .module name)

def dotted : ModName → String
  | [] => ""
  | [a] => a
  | a :: b :: rest => a ++ "." ++ dotted (b :: rest)

/-- `PendingImport`: which call is emitted and which name is assigned -/
def olImport (st : ImpSt) (name : ModName) (asname : Option String) : ImpSt × String × Obj :=
  if asname.isNone && name.length > 1 then
    let (st', o) := builtinImportTop st name
    (st', name.headD "", o)
  else
    let (st', o) := importModule st name
    (st', asname.getD (dotted name), o)

/-- `tmp.n` after `tmp = __import__(m, globals(), locals(), [.., n, ..], level)`: with a non-empty
    fromlist the call returns module `m` itself and has imported every listed submodule -/
def olFromName (sub : IsSubmodule) (st : ImpSt) (m : ModName) (n : String) (asname : Option String) :
    ImpSt × String × Obj :=
  let st' := if sub m n then st.load (m ++ [n]) else st      -- `_handle_fromlist`
  (st', asname.getD n, if sub m n then .module (m ++ [n]) else .attr m n)

end OlVerif
