/-
  M-IMPORT, sequences: a program of import statements run from any import state.  The binding
  environment is an association list, newest binding first (a later `import` of the same name
  shadows the earlier one, as a later store does).
-/
import OlVerif.Import.Model

namespace OlVerif

/-- one binding step of an import statement: `import name [as x]`, or one name of
    `from m import n [as x]` -/
inductive ImpStep
  | imp (name : ModName) (asname : Option String)
  | fromName (m : ModName) (n : String) (asname : Option String)
  deriving Repr, DecidableEq

abbrev ImpEnv := List (String × Obj)

def ImpStep.WF : ImpStep → Prop
  | .imp name _ => name ≠ []
  | .fromName _ _ _ => True

def pyStep (sub : IsSubmodule) (s : ImpSt × ImpEnv) : ImpStep → ImpSt × ImpEnv
  | .imp name a => let r := pyImport s.1 name a; (r.1, (r.2.1, r.2.2) :: s.2)
  | .fromName m n a => let r := pyFromName sub s.1 m n a; (r.1, (r.2.1, r.2.2) :: s.2)

def olStep (sub : IsSubmodule) (s : ImpSt × ImpEnv) : ImpStep → ImpSt × ImpEnv
  | .imp name a => let r := olImport s.1 name a; (r.1, (r.2.1, r.2.2) :: s.2)
  | .fromName m n a => let r := olFromName sub s.1 m n a; (r.1, (r.2.1, r.2.2) :: s.2)

def pyRun (sub : IsSubmodule) (s : ImpSt × ImpEnv) (p : List ImpStep) : ImpSt × ImpEnv := p.foldl (pyStep sub) s
def olRun (sub : IsSubmodule) (s : ImpSt × ImpEnv) (p : List ImpStep) : ImpSt × ImpEnv := p.foldl (olStep sub) s

/-- loading never removes or reorders what is loaded -/
theorem load_prefix (st : ImpSt) (m : ModName) : st.loaded <+: (st.load m).loaded := by
  simp only [ImpSt.load]
  split
  · exact List.prefix_refl _
  · exact List.prefix_append _ _

theorem importChain_prefix (st : ImpSt) (pre name : ModName) : st.loaded <+: (importChain st pre name).loaded := by
  induction name generalizing st pre with
  | nil => exact List.prefix_refl _
  | cons x rest ih => exact List.IsPrefix.trans (load_prefix st _) (ih _ _)

theorem load_nodup (st : ImpSt) (m : ModName) (h : st.loaded.Nodup) : (st.load m).loaded.Nodup := by
  simp only [ImpSt.load]
  split
  · exact h
  · rename_i hc
    rw [List.nodup_append]
    refine ⟨h, by simp, ?_⟩
    intro a ha b hb
    simp at hb hc
    subst hb
    intro e; subst e; exact hc ha

theorem importChain_nodup (st : ImpSt) (pre name : ModName) (h : st.loaded.Nodup) :
    (importChain st pre name).loaded.Nodup := by
  induction name generalizing st pre with
  | nil => exact h
  | cons x rest ih => exact ih _ _ (load_nodup st _ h)

end OlVerif
