/-
  Bridge M-LOWER -> M-IMPORT.  `lowerImport` (the model of `PendingImport.get_result`, compared with the real
  converter by K) decides on the *text* of the module name (`'.' in name`, `name.split('.')[0]`); M-IMPORT
  (`olImport`) decides on the module *path*.  Under the string facts `Alias.dotOK` - which the driver evaluates on
  every alias of every program the correspondence runs - the two decisions are the same: same name bound, same
  call emitted.
-/
import OlVerif.Lower.Stmt
import OlVerif.Import.Model

namespace OlVerif

/-- the module path an alias names -/
def Alias.modName (a : Alias) : ModName := a.name.splitOn "."

/-- text-level and path-level views of the dotted name agree -/
def Alias.dotOK (a : Alias) : Bool :=
  (a.name.contains '.' == decide (a.modName.length > 1)) && (dotted a.modName == a.name)

/-- what `lowerImport` emits for one alias: the name it binds and the value bound -/
def importPlan (a : Alias) : String × Expr :=
  if a.asname.isNone && a.name.contains '.' then
    ((a.name.splitOn ".").headD "", .call (.name "__import__") [Expr.str a.name] [])
  else
    (a.asname.getD a.name, .call (.attribute (.name "importlib") "import_module") [Expr.str a.name] [])

/-- the call M-IMPORT's `olImport` stands for: `__import__(dotted)` when it uses `builtinImportTop`,
    `importlib.import_module(dotted)` when it uses `importModule` -/
def modelCall (name : ModName) (asname : Option String) : Expr :=
  if asname.isNone && name.length > 1 then .call (.name "__import__") [Expr.str (dotted name)] []
  else .call (.attribute (.name "importlib") "import_module") [Expr.str (dotted name)] []

mutual
  /-- every alias of every `import` statement, at any depth, satisfies the string facts -/
  def importsOKS : Stmt → Bool
    | .import_ names => names.all Alias.dotOK
    | .if_ _ b e => importsOKL b && importsOKL e
    | .while_ _ b e => importsOKL b && importsOKL e
    | .for_ _ _ b e => importsOKL b && importsOKL e
    | .functionDef _ _ body _ _ => importsOKL body
    | .classDef _ _ _ body _ _ => importsOKL body
    | _ => true
  def importsOKL : List Stmt → Bool
    | [] => true
    | s :: ss => importsOKS s && importsOKL ss
end

end OlVerif
