/-
  M-CTRL, part 4: lemmas about the analysis pass and the two semantics.
-/
import OlVerif.Ctrl.Sem

namespace OlVerif.Ctrl

/-! ### analysis -/

mutual
  theorem hasBC_mono (s : Sk) : hasBC true s = true → hasBC false s = true := by
    cases s with
    | ite c t e =>
      simp only [hasBC, Bool.or_eq_true]
      intro h
      rcases h with h | h
      · exact Or.inl (hasBCL_mono t h)
      · exact Or.inr (hasBCL_mono e h)
    | whl c b e => simp only [hasBC]; exact hasBCL_mono e
    | for_ c b e => simp only [hasBC]; exact hasBCL_mono e
    | atom i => simp [hasBC]
    | pass => simp [hasBC]
    | brk => simp [hasBC]
    | cont => simp [hasBC]
    | ret v => simp [hasBC]
  theorem hasBCL_mono (b : List Sk) : hasBCL true b = true → hasBCL false b = true := by
    cases b with
    | nil => simp [hasBCL]
    | cons s ss =>
      simp only [hasBCL, Bool.or_eq_true, Bool.and_eq_true]
      intro h
      rcases h with h | ⟨h1, h2⟩
      · exact Or.inl (hasBC_mono s h)
      · exact Or.inr ⟨h1, hasBCL_mono ss h2⟩
end

theorem hasRetL_hasBreakL (b : List Sk) : hasRetL b = true → hasBreakL b = true := by
  induction b with
  | nil => simp [hasRetL]
  | cons s ss ih =>
    simp only [hasRetL, hasBreakL, Bool.or_eq_true, Bool.and_eq_true]
    intro h
    rcases h with h | ⟨h1, h2⟩
    · exact Or.inl (Or.inl h)
    · exact Or.inr ⟨h1, ih h2⟩

theorem hasBCL_hasBreakL (b : List Sk) : hasBCL true b = true → hasBreakL b = true := by
  induction b with
  | nil => simp [hasBCL]
  | cons s ss ih =>
    simp only [hasBCL, hasBreakL, Bool.or_eq_true, Bool.and_eq_true]
    intro h
    rcases h with h | ⟨h1, h2⟩
    · exact Or.inl (Or.inr h)
    · exact Or.inr ⟨h1, ih h2⟩

theorem hasRetL_anyIntL (b : List Sk) : hasRetL b = true → anyIntL b = true := by
  induction b with
  | nil => simp [hasRetL]
  | cons s ss ih =>
    simp only [hasRetL, anyIntL, mayInt, Bool.or_eq_true, Bool.and_eq_true]
    intro h
    rcases h with h | ⟨h1, h2⟩
    · exact Or.inl (Or.inl h)
    · exact Or.inr ⟨h1, ih h2⟩

theorem hasBCL_anyIntL (b : List Sk) : hasBCL false b = true → anyIntL b = true := by
  induction b with
  | nil => simp [hasBCL]
  | cons s ss ih =>
    simp only [hasBCL, anyIntL, mayInt, Bool.or_eq_true, Bool.and_eq_true]
    intro h
    rcases h with h | ⟨h1, h2⟩
    · exact Or.inl (Or.inr h)
    · exact Or.inr ⟨h1, ih h2⟩

/-! ### which signals an item can produce -/

/-- a signal is only produced where the analysis pass sees its syntactic cause -/
def Poss : Item → Sig → Prop
  | _, .normal => True
  | .stmt s, .brk => hasBC true s = true
  | .stmt s, .cont => hasBC false s = true
  | .stmt s, .ret _ => hasRet s = true
  | .block b, .brk => hasBCL true b = true
  | .block b, .cont => hasBCL false b = true
  | .block b, .ret _ => hasRetL b = true
  | .wloop _ b, .brk => hasBCL true b = true
  | .wloop _ _, .cont => False
  | .wloop _ b, .ret _ => hasRetL b = true
  | .floop _ b, .brk => hasBCL true b = true
  | .floop _ _, .cont => False
  | .floop _ b, .ret _ => hasRetL b = true

theorem direct_not_normal {σ} {W : World σ} {x : Sk} {s s' : σ} {sig : Sig}
    (h : Exec W (.stmt x) s s' sig) (hd : x.isDirect = true) : sig ≠ .normal := by
  cases h <;> simp_all [Sk.isDirect]

theorem exec_poss {σ} {W : World σ} {item : Item} {s s' : σ} {sig : Sig}
    (h : Exec W item s s' sig) : Poss item sig := by
  induction h with
  | atom => trivial
  | pass => trivial
  | brk => simp [Poss, hasBC]
  | cont => simp [Poss, hasBC]
  | retNone => simp [Poss, hasRet]
  | retSome => simp [Poss, hasRet]
  | iteTrue c t e s s' sig _ _ ih =>
    cases sig <;> simp_all [Poss, hasBC, hasRet]
  | iteFalse c t e s s' sig _ _ ih =>
    cases sig <;> simp_all [Poss, hasBC, hasRet]
  | whlDone c b e s s1 s2 sig _ _ _ ih2 =>
    cases sig <;> simp_all [Poss, hasBC, hasRet]
  | whlBrk => trivial
  | whlRet c b e s s1 v _ ih => simp_all [Poss, hasRet]
  | forDone c b e s s1 s2 sig _ _ _ ih2 =>
    cases sig <;> simp_all [Poss, hasBC, hasRet]
  | forBrk => trivial
  | forRet c b e s s1 v _ ih => simp_all [Poss, hasRet]
  | nil => trivial
  | consNormal x xs s s1 s2 sig h1 _ _ ih2 =>
    have hd : x.isDirect = false := by
      cases hx : x.isDirect
      · rfl
      · exact absurd rfl (direct_not_normal h1 hx)
    cases sig <;> simp_all [Poss, hasBCL, hasRetL]
  | consStop x xs s s1 sig _ hne ih =>
    cases sig <;> simp_all [Poss, hasBCL, hasRetL]
  | wExit => trivial
  | wNext c b s s1 s2 sig sig' _ _ _ _ _ ih2 => exact ih2
  | wBrk c b s s1 _ _ ih => exact ih
  | wRet c b s s1 v _ _ ih => exact ih
  | fExit => trivial
  | fNext c b s s1 s2 sig sig' _ _ _ _ _ ih2 => exact ih2
  | fBrk c b s s1 _ _ ih => exact ih
  | fRet c b s s1 v _ _ ih => exact ih

/-! ### target sequences -/

variable {σ : Type} {W : World σ}

theorem eval_seq_append {a b : List T} {s s1 s2 : TS σ}
    (h1 : Eval W (.seq a) s s1 true) (h2 : Eval W (.seq b) s1 s2 true) : Eval W (.seq (a ++ b)) s s2 true := by
  induction a generalizing s with
  | nil => cases h1; simpa using h2
  | cons t ts ih =>
    cases h1 with
    | seqCons _ _ _ s' _ bb ht hts => exact Eval.seqCons _ _ _ _ _ _ ht (ih hts)

theorem eval_seq_single {t : T} {s s1 : TS σ} {b : Bool} (h : Eval W (.expr t) s s1 b) :
    Eval W (.seq [t]) s s1 true :=
  Eval.seqCons _ _ _ _ _ _ h (Eval.seqNil _)

/-- whatever the wrapper, wrapping a list of lowered statements evaluates them in order -/
theorem eval_wrap (w : Wrapper) {ts : List T} {s s' : TS σ} (h : Eval W (.seq ts) s s' true) :
    ∃ b, Eval W (.expr (wrapT w ts)) s s' b := by
  match ts, h with
  | [], h => cases h; exact ⟨true, Eval.ell _⟩
  | [t], h =>
    cases h with
    | seqCons _ _ _ s1 _ b ht hts => cases hts; exact ⟨b, ht⟩
  | t :: t' :: rest, h =>
    cases w with
    | list => exact ⟨_, Eval.seqList _ _ _ h⟩
    | chainCall => exact ⟨_, Eval.seqChain _ _ _ h⟩

end OlVerif.Ctrl

namespace OlVerif.Ctrl

theorem hasBreakL_anyIntL (b : List Sk) : hasBreakL b = true → anyIntL b = true := by
  induction b with
  | nil => simp [hasBreakL]
  | cons s ss ih =>
    simp only [hasBreakL, anyIntL, mayInt, Bool.or_eq_true, Bool.and_eq_true]
    intro h
    rcases h with (h | h) | ⟨h1, h2⟩
    · exact Or.inl (Or.inl h)
    · exact Or.inl (Or.inr (hasBC_mono s h))
    · exact Or.inr ⟨h1, ih h2⟩

/-- `anyIntL` is "some live return, break or continue" -/
theorem anyIntL_iff (b : List Sk) : anyIntL b = (hasRetL b || hasBCL false b) := by
  induction b with
  | nil => simp [anyIntL, hasRetL, hasBCL]
  | cons s ss ih =>
    simp only [anyIntL, hasRetL, hasBCL, mayInt, ih]
    cases hasRet s <;> cases hasBC false s <;> cases s.isDirect <;> cases hasRetL ss <;> cases hasBCL false ss <;> rfl

mutual
  /-- a guard inside a statement means the statement itself may interrupt (loop context) -/
  theorem guardsInS_mayInt (s : Sk) : guardsInS .loop s = true → (hasRet s || hasBC false s) = true := by
    cases s with
    | ite c t e =>
      simp only [guardsInS, hasRet, hasBC, Bool.or_eq_true]
      intro h
      rcases h with h | h
      · have := guardsInL_int t h
        simp only [Bool.or_eq_true] at this
        rcases this with h' | h'
        · exact Or.inl (Or.inl h')
        · exact Or.inr (Or.inl h')
      · have := guardsInL_int e h
        simp only [Bool.or_eq_true] at this
        rcases this with h' | h'
        · exact Or.inl (Or.inr h')
        · exact Or.inr (Or.inr h')
    | whl c b e =>
      simp only [guardsInS, hasRet, hasBC, Bool.or_eq_true]
      intro h
      have := guardsInL_int e h
      simp only [Bool.or_eq_true] at this
      rcases this with h' | h'
      · exact Or.inl (Or.inr h')
      · exact Or.inr h'
    | for_ c b e =>
      simp only [guardsInS, hasRet, hasBC, Bool.or_eq_true]
      intro h
      have := guardsInL_int e h
      simp only [Bool.or_eq_true] at this
      rcases this with h' | h'
      · exact Or.inl (Or.inr h')
      · exact Or.inr h'
    | atom i => simp [guardsInS]
    | pass => simp [guardsInS]
    | brk => simp [guardsInS]
    | cont => simp [guardsInS]
    | ret v => simp [guardsInS]
  theorem guardsInL_int (b : List Sk) : guardsInL .loop b = true → (hasRetL b || hasBCL false b) = true := by
    cases b with
    | nil => simp [guardsInL]
    | cons s ss =>
      simp only [guardsInL, hasRetL, hasBCL]
      cases hd : s.isDirect
      · simp only [Bool.false_eq_true, ↓reduceIte, Bool.or_eq_true, Bool.and_eq_true, Bool.not_false, Bool.true_and, mayInt]
        intro h
        rcases h with (⟨h, _⟩ | h) | h
        · rcases h with h | h
          · exact Or.inl (Or.inl h)
          · exact Or.inr (Or.inl h)
        · have := guardsInS_mayInt s h
          simp only [Bool.or_eq_true] at this
          rcases this with h' | h'
          · exact Or.inl (Or.inl h')
          · exact Or.inr (Or.inl h')
        · have := guardsInL_int ss h
          simp only [Bool.or_eq_true] at this
          rcases this with h' | h'
          · exact Or.inl (Or.inr h')
          · exact Or.inr (Or.inr h')
      · simp
end

theorem guardsInL_anyIntL (b : List Sk) : guardsInL .loop b = true → anyIntL b = true := by
  intro h
  rw [anyIntL_iff]
  exact guardsInL_int b h

end OlVerif.Ctrl
