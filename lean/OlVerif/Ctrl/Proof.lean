/-
  M-CTRL, part 7: the lowering of control flow preserves the semantics - the main induction.
-/
import OlVerif.Ctrl.Sets

set_option linter.unusedSimpArgs false
set_option linter.unusedVariables false

namespace OlVerif.Ctrl

variable {σ : Type} {W : World σ}

/-! ### side conditions -/

/-- the enclosing loops have pairwise different ids -/
def Distinct (cx : Cx) : Prop := cx.loops.Pairwise fun a b => a.id ≠ b.id

def GoodS (cx : Cx) (x : Sk) : Prop :=
  wf (!cx.loops.isEmpty) cx.inFn x = true ∧ Fresh cx (loopIds x) ∧ (guardsInS cx.fk x = true → ownerUsed cx = true) ∧
    Distinct cx

def GoodB (cx : Cx) (b : List Sk) : Prop :=
  wfL (!cx.loops.isEmpty) cx.inFn b = true ∧ Fresh cx (loopIdsL b) ∧ (guardsInL cx.fk b = true → ownerUsed cx = true) ∧
    Distinct cx

def GoodLoop (cx : Cx) (c : Nat) (b : List Sk) : Prop :=
  wfL true cx.inFn b = true ∧ Fresh cx (c :: loopIdsL b) ∧ c ∉ loopIdsL b ∧ Distinct cx

def whileTest (c : Nat) (b : List Sk) : T :=
  if hasBreakL b then .and_ (.readNot (.brk c)) (.cond c) else .cond c

def resetIntr (c : Nat) (b : List Sk) : List T :=
  if guardsInL .loop b then [T.setFlag (.intr c) false] else []

def whileBody (cx : Cx) (c : Nat) (b : List Sk) : T :=
  wrapT cx.wrap (resetIntr c b ++ lowerB (cx.push ⟨c, true, guardsInL .loop b⟩) b)

def forBody (cx : Cx) (c : Nat) (b : List Sk) : T :=
  wrapT cx.wrap (resetIntr c b ++ (T.bindItem c :: lowerB (cx.push ⟨c, false, guardsInL .loop b⟩) b))

/-! ### helper lemmas -/

theorem fresh_not_mem {cx : Cx} {c : Nat} {ids : List Nat} (h : Fresh cx ids) (hc : c ∈ ids) :
    Flag.brk c ∉ ctxFlags cx ∧ Flag.intr c ∉ ctxFlags cx := by
  constructor <;>
  · intro hm
    simp only [ctxFlags, loopFlags, List.mem_append, List.mem_flatMap, List.mem_cons, List.mem_singleton,
      List.not_mem_nil, or_false] at hm
    rcases hm with ⟨l, hl, h1 | h1⟩ | h1
    · first
        | (injection h1 with e; exact h c hc l hl e.symm)
        | cases h1
    · first
        | (injection h1 with e; exact h c hc l hl e.symm)
        | cases h1
    · cases h1

theorem outer_sub_ctx {cx : Cx} {f : Flag} (h : f ∈ outerFlags cx) : f ∈ ctxFlags cx := by
  simp only [outerFlags, ctxFlags, loopFlags, List.mem_append, List.mem_flatMap, List.mem_singleton] at *
  rcases h with ⟨l, hl, h1⟩ | h
  · exact Or.inl ⟨l, mem_of_mem_dropLast hl, h1⟩
  · exact Or.inr h

/-- a later exit condition may be read against an earlier flag state that agrees on the context -/
theorem post_trans_normal {cx : Cx} {sig : Sig} {fl fl1 fl' : Flag → Bool} {rv rv1 rv' : Option Nat}
    (h1 : ∀ f ∈ ctxFlags cx, fl1 f = fl f) (hr : rv1 = rv) (h2 : Post cx sig fl1 rv1 fl' rv') :
    Post cx sig fl rv fl' rv' := by
  subst hr
  cases sig with
  | normal =>
    obtain ⟨ha, hb⟩ := h2
    exact ⟨fun f hf => (ha f hf).trans (h1 f hf), hb⟩
  | brk =>
    obtain ⟨l, hl, hb, hi, ho, hr⟩ := h2
    exact ⟨l, hl, hb, hi, fun f hf => (ho f hf).trans (h1 f (outer_sub_ctx hf)), hr⟩
  | cont =>
    obtain ⟨l, hl, hb, hi, ho, hr⟩ := h2
    have hm : l ∈ cx.loops := List.mem_of_getLast? hl
    exact ⟨l, hl, hb.trans (h1 _ (brk_mem_ctxFlags hm)), hi, fun f hf => (ho f hf).trans (h1 f (outer_sub_ctx hf)), hr⟩
  | ret v => exact h2

/-- after a taken break / continue / return, the flow-control flag of the block is set
    (whenever it is read at all) -/
theorem post_flow_true {cx : Cx} {sig : Sig} {fl fl' : Flag → Bool} {rv rv' : Option Nat}
    (hs : sig ≠ .normal) (h : Post cx sig fl rv fl' rv') (hu : ownerUsed cx = true) : fl' cx.flowFlag = true := by
  unfold ownerUsed at hu
  unfold Cx.flowFlag
  cases sig with
  | normal => exact absurd rfl hs
  | brk =>
    obtain ⟨l, hl, hb, hi, ho, hr⟩ := h
    rw [hl] at hu ⊢
    exact hi hu
  | cont =>
    obtain ⟨l, hl, hb, hi, ho, hr⟩ := h
    rw [hl] at hu ⊢
    exact hi hu
  | ret v =>
    obtain ⟨hl, hf, hr⟩ := h
    cases hg : cx.loops.getLast? with
    | none => rw [hg] at hu; exact hf hu
    | some l =>
      rw [hg] at hu
      exact (hl l (List.mem_of_getLast? hg)).2 hu

/-- break / continue reach a block only inside a loop -/
theorem post_brk_loops {cx : Cx} {sig : Sig} {fl fl' : Flag → Bool} {rv rv' : Option Nat}
    (hs : sig = .brk ∨ sig = .cont) (h : Post cx sig fl rv fl' rv') : cx.loops.isEmpty = false := by
  rcases hs with rfl | rfl <;>
  · obtain ⟨l, hl, _⟩ := h
    cases hc : cx.loops with
    | nil => rw [hc] at hl; simp at hl
    | cons a as => rfl

mutual
  theorem wf_noFn_noRet (il : Bool) (x : Sk) : wf il false x = true → hasRet x = false := by
    cases x with
    | ret v => simp [wf]
    | ite c t e =>
      simp only [wf, hasRet, Bool.and_eq_true, Bool.or_eq_false_iff]
      intro ⟨h1, h2⟩
      exact ⟨wfL_noFn_noRet il t h1, wfL_noFn_noRet il e h2⟩
    | whl c b e =>
      simp only [wf, hasRet, Bool.and_eq_true, Bool.or_eq_false_iff]
      intro ⟨⟨_, h1⟩, h2⟩
      exact ⟨wfL_noFn_noRet true b h1, wfL_noFn_noRet il e h2⟩
    | for_ c b e =>
      simp only [wf, hasRet, Bool.and_eq_true, Bool.or_eq_false_iff]
      intro ⟨⟨_, h1⟩, h2⟩
      exact ⟨wfL_noFn_noRet true b h1, wfL_noFn_noRet il e h2⟩
    | atom i => simp [hasRet]
    | pass => simp [hasRet]
    | brk => simp [hasRet]
    | cont => simp [hasRet]
  theorem wfL_noFn_noRet (il : Bool) (b : List Sk) : wfL il false b = true → hasRetL b = false := by
    cases b with
    | nil => simp [hasRetL]
    | cons s ss =>
      simp only [wfL, hasRetL, Bool.and_eq_true, Bool.or_eq_false_iff, Bool.and_eq_false_iff]
      intro ⟨h1, h2⟩
      exact ⟨wf_noFn_noRet il s h1, Or.inr (wfL_noFn_noRet il ss h2)⟩
end

/-- a statement that stops its block is one the analysis pass marked as "may interrupt" -/
theorem stop_mayInt {cx : Cx} {x : Sk} {s s' : σ} {sig : Sig} {fl fl' : Flag → Bool} {rv rv' : Option Nat}
    (he : Exec W (.stmt x) s s' sig) (hs : sig ≠ .normal) (hg : GoodS cx x) (hp : Post cx sig fl rv fl' rv') :
    mayInt cx.fk x = true := by
  have hposs := exec_poss he
  cases sig with
  | normal => exact absurd rfl hs
  | brk =>
    have hl := post_brk_loops (Or.inl rfl) hp
    simp only [Cx.fk, hl, Bool.not_false, ↓reduceIte, mayInt, Bool.or_eq_true]
    exact Or.inr (hasBC_mono x hposs)
  | cont =>
    have hl := post_brk_loops (Or.inr rfl) hp
    simp only [Cx.fk, hl, Bool.not_false, ↓reduceIte, mayInt, Bool.or_eq_true]
    exact Or.inr hposs
  | ret v =>
    simp only [Poss] at hposs
    unfold Cx.fk
    split
    · simp [mayInt, hposs]
    · split
      · simp [mayInt, hposs]
      · rename_i h1 h2
        have : cx.inFn = false := by simpa using h2
        have hw := hg.1
        rw [this] at hw
        rw [wf_noFn_noRet _ x hw] at hposs
        cases hposs

end OlVerif.Ctrl
