/-
  M-CTRL, part 1: control-flow skeletons, the target IR and the lowering.

  Source: `Sk` - the statement skeleton of a block: opaque atoms (any simple statement), pass,
  break, continue, return, if/else, while/else, for/else.  Conditions, iterables and return
  values are opaque and numbered.
  Target: `T` - exactly the constructs the converter emits for control flow: flag writes and
  reads, list-display and chain-call sequencing, conditional expression, the and / or / 1 forms
  of the short-circuit style, the takewhile/count comprehension, the plain and the
  wrapped-iterator comprehension.
  `lowerB` / `lowerS` are the pure two-pass formulation of `_iter_branch`, `PendingIf`,
  `PendingWhile`, `PendingFor`, `PendingBreak`, `PendingContinue`, `PendingReturn`
  (DESIGN.md App. C); `emit` gives the concrete tree, which the correspondence check compares
  with the converter's output on every generated skeleton.
-/
import OlVerif.Lower.Stmt

namespace OlVerif.Ctrl

inductive Sk
  | atom (i : Nat)
  | pass
  | brk
  | cont
  | ret (v : Option Nat)
  | ite (c : Nat) (t e : List Sk)
  | whl (c : Nat) (b e : List Sk)
  | for_ (i : Nat) (b e : List Sk)

instance : Inhabited Sk := ⟨.pass⟩

def Sk.isDirect : Sk → Bool
  | .brk | .cont | .ret _ => true
  | _ => false

/-! ### the analysis pass (same definitions as on `Stmt`) -/

mutual
  def hasRet : Sk → Bool
    | .ret _ => true
    | .ite _ b e => hasRetL b || hasRetL e
    | .whl _ b e => hasRetL b || hasRetL e
    | .for_ _ b e => hasRetL b || hasRetL e
    | _ => false
  def hasRetL : List Sk → Bool
    | [] => false
    | s :: ss => hasRet s || (!s.isDirect && hasRetL ss)
end

mutual
  def hasBC (brkOnly : Bool) : Sk → Bool
    | .brk => true
    | .cont => !brkOnly
    | .ite _ b e => hasBCL brkOnly b || hasBCL brkOnly e
    | .whl _ _ e => hasBCL brkOnly e
    | .for_ _ _ e => hasBCL brkOnly e
    | _ => false
  def hasBCL (brkOnly : Bool) : List Sk → Bool
    | [] => false
    | s :: ss => hasBC brkOnly s || (!s.isDirect && hasBCL brkOnly ss)
end

def mayInt (fk : FlowKind) (s : Sk) : Bool :=
  match fk with
  | .loop => hasRet s || hasBC false s
  | .function => hasRet s
  | .none => false

mutual
  def guardsInL (fk : FlowKind) : List Sk → Bool
    | [] => false
    | s :: ss =>
      if s.isDirect then false
      else (mayInt fk s && !ss.isEmpty) || guardsInS fk s || guardsInL fk ss
  def guardsInS (fk : FlowKind) : Sk → Bool
    | .ite _ b e => guardsInL fk b || guardsInL fk e
    | .whl _ _ e => guardsInL fk e
    | .for_ _ _ e => guardsInL fk e
    | _ => false
end

def hasBreakL : List Sk → Bool
  | [] => false
  | s :: ss => hasRet s || hasBC true s || (!s.isDirect && hasBreakL ss)

def anyIntL : List Sk → Bool
  | [] => false
  | s :: ss => mayInt .loop s || (!s.isDirect && anyIntL ss)

/-! ### target IR -/

/-- run-time flags: `brk c` is `__ol_break_*` of while loop `c` or the `_break` attribute of the
    wrapped iterator of for loop `c`; `intr c` is `__ol_interrupt_*`; `ret` is `__ol_ret_*` -/
inductive Flag
  | brk (c : Nat)
  | intr (c : Nat)
  | ret
  deriving DecidableEq, Repr

inductive T
  | atom (i : Nat)                      -- the lowered simple statement `i`
  | cond (i : Nat)                      -- the condition expression `i`
  | ell                                 -- `...`
  | one                                 -- `1`
  | setFlag (f : Flag) (v : Bool)       -- `(flag := True/False)`
  | readNot (f : Flag)                  -- `not flag`
  | setRetv (i : Nat)                   -- `(__ol_retv := <return value i>)`
  | setBreakAttr (c : Nat)              -- `setattr(__ol_it_c, "_break", True)`
  | readNotBreakAttr (c : Nat)          -- `not __ol_it_c._break`
  | openWrapped (c : Nat)               -- `(__ol_it_c := __ol_iter_wrapper(<iterable c>))`
  | bindItem (c : Nat)                  -- assignment of the comprehension variable to the loop target
  | seqList (ts : List T)               -- list display `[t1, ..., tn]`
  | seqChain (ts : List T)              -- `runner(t1)(t2)...(tn)`
  | ifExp (c t e : T)                   -- `t if c else e`
  | and_ (a b : T)
  | or_ (a b : T)
  | whileComp (test body : T)           -- `[body for _ in takewhile(lambda _: test, count())]`
  | forComp (c : Nat) (wrapped : Bool) (body : T)
                                        -- `[body for item in <iterable c>]` / `... in __ol_it_c`

instance : Inhabited T := ⟨.ell⟩

structure LCtx where
  id : Nat
  isWhile : Bool
  used : Bool
  deriving Repr, DecidableEq

structure Cx where
  style : IfStyle
  wrap : Wrapper
  loops : List LCtx := []      -- outermost first
  inFn : Bool := false
  fnUsed : Bool := false
  deriving Repr

def Cx.fk (cx : Cx) : FlowKind :=
  if !cx.loops.isEmpty then .loop else if cx.inFn then .function else .none

def Cx.flowFlag (cx : Cx) : Flag :=
  match cx.loops.getLast? with
  | some l => .intr l.id
  | none => .ret

def Cx.push (cx : Cx) (l : LCtx) : Cx := { cx with loops := cx.loops ++ [l] }

def wrapT (w : Wrapper) : List T → T
  | [] => .ell
  | [t] => t
  | t :: t' :: ts => match w with
    | .list => .seqList (t :: t' :: ts)
    | .chainCall => .seqChain (t :: t' :: ts)

def LCtx.brkSet (l : LCtx) : T :=
  if l.isWhile then .setFlag (.brk l.id) true else .setBreakAttr l.id

def intrSets (ls : List LCtx) : List T :=
  (ls.filter (·.used)).map fun l => T.setFlag (.intr l.id) true

mutual
  def lowerB (cx : Cx) : List Sk → List T
    | [] => []
    | s :: ss =>
      if s.isDirect || ss.isEmpty then lowerS cx s
      else if mayInt cx.fk s then
        lowerS cx s ++ [.ifExp (.readNot cx.flowFlag) (wrapT cx.wrap (lowerB cx ss)) .ell]
      else lowerS cx s ++ lowerB cx ss

  def lowerS (cx : Cx) : Sk → List T
    | .atom i => [.atom i]
    | .pass => [.ell]
    | .brk =>
      match cx.loops.getLast? with
      | none => []
      | some l => [.seqList (l.brkSet :: intrSets [l])]
    | .cont =>
      match cx.loops.getLast? with
      | none => []
      | some l => [.seqList (intrSets [l])]
    | .ret v =>
      [.seqList ((match v with | none => [] | some i => [T.setRetv i]) ++ cx.loops.map LCtx.brkSet ++
        intrSets cx.loops.reverse ++ (if cx.fnUsed then [T.setFlag .ret true] else []))]
    | .ite c t e =>
      let b := wrapT cx.wrap (lowerB cx t)
      let o := wrapT cx.wrap (lowerB cx e)
      match cx.style with
      | .shortCircuit =>
        if e.isEmpty then [.and_ (.cond c) b]
        else [.or_ (.and_ (.cond c) (.seqList [b])) o]
      | .ifExpr => [.ifExp (.cond c) b o]
    | .whl c body els =>
      let l : LCtx := { id := c, isWhile := true, used := guardsInL .loop body }
      let hb := hasBreakL body
      let b := (if l.used then [T.setFlag (.intr c) false] else []) ++ lowerB (cx.push l) body
      let o := wrapT cx.wrap (lowerB cx els)
      let test : T := if hb then .and_ (.readNot (.brk c)) (.cond c) else .cond c
      (if hb then [T.setFlag (.brk c) false] else []) ++ [.whileComp test (wrapT cx.wrap b)] ++
        (if els.isEmpty then [] else [if hb then .ifExp (.readNot (.brk c)) o .ell else o])
    | .for_ c body els =>
      let l : LCtx := { id := c, isWhile := false, used := guardsInL .loop body }
      let hb := hasBreakL body
      let b := lowerB (cx.push l) body
      let o := wrapT cx.wrap (lowerB cx els)
      if !anyIntL body && els.isEmpty then
        [.forComp c false (wrapT cx.wrap (T.bindItem c :: b))]
      else
        let b := (if l.used then [T.setFlag (.intr c) false] else []) ++ (T.bindItem c :: b)
        (if hb then [T.openWrapped c] else []) ++ [.forComp c hb (wrapT cx.wrap b)] ++
          (if els.isEmpty then [] else [if hb then .ifExp (.readNotBreakAttr c) o .ell else o])
end

/-- a function body: `[retv := None, ret := False?, <body>, retv][-1]` - the part that matters for
    control flow is the optional reset of the return flag followed by the body -/
def lowerFn (style : IfStyle) (wrap : Wrapper) (body : List Sk) : List T :=
  let used := guardsInL .function body
  (if used then [T.setFlag .ret false] else []) ++
    lowerB { style := style, wrap := wrap, loops := [], inFn := true, fnUsed := used } body

def lowerModule (style : IfStyle) (wrap : Wrapper) (body : List Sk) : List T :=
  lowerB { style := style, wrap := wrap } body

end OlVerif.Ctrl
