/-
  M-CTRL, part 11: the executable semantics used by the correspondence check are sound for the
  relational semantics in which the theorems are stated: whatever `runS` / `runT` compute (and
  the check compares with CPython) is an `Exec` / `Eval` derivation.
-/
import OlVerif.Ctrl.Run

set_option linter.unusedSimpArgs false
set_option linter.unusedVariables false

namespace OlVerif.Ctrl

variable {σ : Type} {W : World σ}

theorem runS_sound : ∀ (n : Nat) (item : Item) (s s' : σ) (sig : Sig),
    runS W n item s = some (s', sig) → Exec W item s s' sig := by
  intro n
  induction n with
  | zero => intro item s s' sig h; simp [runS] at h
  | succ n ih =>
    intro item s s' sig h
    cases item with
    | stmt x =>
      cases x with
      | atom i =>
        simp only [runS, Option.some.injEq, Prod.mk.injEq] at h
        obtain ⟨rfl, rfl⟩ := h
        exact Exec.atom i s
      | pass =>
        simp only [runS, Option.some.injEq, Prod.mk.injEq] at h
        obtain ⟨rfl, rfl⟩ := h
        exact Exec.pass s
      | brk =>
        simp only [runS, Option.some.injEq, Prod.mk.injEq] at h
        obtain ⟨rfl, rfl⟩ := h
        exact Exec.brk s
      | cont =>
        simp only [runS, Option.some.injEq, Prod.mk.injEq] at h
        obtain ⟨rfl, rfl⟩ := h
        exact Exec.cont s
      | ret v =>
        cases v with
        | none =>
          simp only [runS, Option.some.injEq, Prod.mk.injEq] at h
          obtain ⟨rfl, rfl⟩ := h
          exact Exec.retNone s
        | some i =>
          simp only [runS, Option.some.injEq, Prod.mk.injEq] at h
          obtain ⟨rfl, rfl⟩ := h
          exact Exec.retSome i s
      | ite c t e =>
        simp only [runS] at h
        split at h
        · rename_i hc
          exact Exec.iteTrue _ _ _ _ _ _ hc (ih _ _ _ _ h)
        · rename_i hc
          exact Exec.iteFalse _ _ _ _ _ _ (by simpa using hc) (ih _ _ _ _ h)
      | whl c b e =>
        simp only [runS] at h
        split at h
        · rename_i s1 hl
          exact Exec.whlDone _ _ _ _ _ _ _ (ih _ _ _ _ hl) (ih _ _ _ _ h)
        · rename_i s1 hl
          simp only [Option.some.injEq, Prod.mk.injEq] at h
          obtain ⟨rfl, rfl⟩ := h
          exact Exec.whlBrk _ _ _ _ _ (ih _ _ _ _ hl)
        · rename_i s1 v hl
          simp only [Option.some.injEq, Prod.mk.injEq] at h
          obtain ⟨rfl, rfl⟩ := h
          exact Exec.whlRet _ _ _ _ _ _ (ih _ _ _ _ hl)
        · cases h
      | for_ c b e =>
        simp only [runS] at h
        split at h
        · rename_i s1 hl
          exact Exec.forDone _ _ _ _ _ _ _ (ih _ _ _ _ hl) (ih _ _ _ _ h)
        · rename_i s1 hl
          simp only [Option.some.injEq, Prod.mk.injEq] at h
          obtain ⟨rfl, rfl⟩ := h
          exact Exec.forBrk _ _ _ _ _ (ih _ _ _ _ hl)
        · rename_i s1 v hl
          simp only [Option.some.injEq, Prod.mk.injEq] at h
          obtain ⟨rfl, rfl⟩ := h
          exact Exec.forRet _ _ _ _ _ _ (ih _ _ _ _ hl)
        · cases h
    | block b =>
      cases b with
      | nil =>
        simp only [runS, Option.some.injEq, Prod.mk.injEq] at h
        obtain ⟨rfl, rfl⟩ := h
        exact Exec.nil s
      | cons x xs =>
        simp only [runS] at h
        split at h
        · rename_i s1 hx
          exact Exec.consNormal _ _ _ _ _ _ (ih _ _ _ _ hx) (ih _ _ _ _ h)
        · rename_i r hne
          have hx := ih _ _ _ _ h
          refine Exec.consStop _ _ _ _ _ hx ?_
          intro hsig
          subst hsig
          exact hne s' h
    | wloop c b =>
      simp only [runS] at h
      split at h
      · rename_i hc
        split at h
        · rename_i s1 hb
          exact Exec.wNext _ _ _ _ _ _ _ hc (ih _ _ _ _ hb) (Or.inl rfl) (ih _ _ _ _ h)
        · rename_i s1 hb
          exact Exec.wNext _ _ _ _ _ _ _ hc (ih _ _ _ _ hb) (Or.inr rfl) (ih _ _ _ _ h)
        · rename_i r hn1 hn2
          have hb := ih _ _ _ _ h
          cases sig with
          | normal => exact absurd h (hn1 s')
          | cont => exact absurd h (hn2 s')
          | brk => exact Exec.wBrk _ _ _ _ hc hb
          | ret v => exact Exec.wRet _ _ _ _ _ hc hb
      · rename_i hc
        simp only [Option.some.injEq, Prod.mk.injEq] at h
        obtain ⟨rfl, rfl⟩ := h
        exact Exec.wExit _ _ _ (by simpa using hc)
    | floop c b =>
      simp only [runS] at h
      split at h
      · rename_i hc
        split at h
        · rename_i s1 hb
          exact Exec.fNext _ _ _ _ _ _ _ hc (ih _ _ _ _ hb) (Or.inl rfl) (ih _ _ _ _ h)
        · rename_i s1 hb
          exact Exec.fNext _ _ _ _ _ _ _ hc (ih _ _ _ _ hb) (Or.inr rfl) (ih _ _ _ _ h)
        · rename_i r hn1 hn2
          have hb := ih _ _ _ _ h
          cases sig with
          | normal => exact absurd h (hn1 s')
          | cont => exact absurd h (hn2 s')
          | brk => exact Exec.fBrk _ _ _ _ hc hb
          | ret v => exact Exec.fRet _ _ _ _ _ hc hb
      · rename_i hc
        simp only [Option.some.injEq, Prod.mk.injEq] at h
        obtain ⟨rfl, rfl⟩ := h
        exact Exec.fExit _ _ _ (by simpa using hc)

theorem runT_sound : ∀ (n : Nat) (item : TItem) (s s' : TS σ) (b : Bool),
    runT W n item s = some (s', b) → Eval W item s s' b ∧ (∀ ts, item = .seq ts → b = true) := by
  intro n
  induction n with
  | zero => intro item s s' b h; simp [runT] at h
  | succ n ih =>
    intro item s s' b h
    cases item with
    | expr t =>
      refine ⟨?_, fun ts h' => by cases h'⟩
      cases t with
      | atom i =>
        simp only [runT, Option.some.injEq, Prod.mk.injEq] at h
        obtain ⟨rfl, rfl⟩ := h
        exact Eval.atom i s
      | cond i =>
        simp only [runT, Option.some.injEq, Prod.mk.injEq] at h
        obtain ⟨rfl, rfl⟩ := h
        exact Eval.cond i s
      | ell =>
        simp only [runT, Option.some.injEq, Prod.mk.injEq] at h
        obtain ⟨rfl, rfl⟩ := h
        exact Eval.ell s
      | one =>
        simp only [runT, Option.some.injEq, Prod.mk.injEq] at h
        obtain ⟨rfl, rfl⟩ := h
        exact Eval.one s
      | setFlag f v =>
        simp only [runT, Option.some.injEq, Prod.mk.injEq] at h
        obtain ⟨rfl, rfl⟩ := h
        exact Eval.setFlag f _ s
      | readNot f =>
        simp only [runT, Option.some.injEq, Prod.mk.injEq] at h
        obtain ⟨rfl, rfl⟩ := h
        exact Eval.readNot f s
      | setRetv i =>
        simp only [runT, Option.some.injEq, Prod.mk.injEq] at h
        obtain ⟨rfl, rfl⟩ := h
        exact Eval.setRetv i s
      | setBreakAttr c =>
        simp only [runT, Option.some.injEq, Prod.mk.injEq] at h
        obtain ⟨rfl, rfl⟩ := h
        exact Eval.setBreakAttr c s
      | readNotBreakAttr c =>
        simp only [runT, Option.some.injEq, Prod.mk.injEq] at h
        obtain ⟨rfl, rfl⟩ := h
        exact Eval.readNotBreakAttr c s
      | openWrapped c =>
        simp only [runT, Option.some.injEq, Prod.mk.injEq] at h
        obtain ⟨rfl, rfl⟩ := h
        exact Eval.openWrapped c s
      | bindItem c =>
        simp only [runT, Option.some.injEq, Prod.mk.injEq] at h
        obtain ⟨rfl, rfl⟩ := h
        exact Eval.bindItem c s
      | seqList ts =>
        simp only [runT, Option.map_eq_some_iff, Prod.mk.injEq, Prod.exists] at h
        obtain ⟨s1, b1, hr, rfl, rfl⟩ := h
        obtain ⟨he, hb⟩ := ih _ _ _ _ hr
        rw [hb ts rfl] at he
        exact Eval.seqList _ _ _ he
      | seqChain ts =>
        simp only [runT, Option.map_eq_some_iff, Prod.mk.injEq, Prod.exists] at h
        obtain ⟨s1, b1, hr, rfl, rfl⟩ := h
        obtain ⟨he, hb⟩ := ih _ _ _ _ hr
        rw [hb ts rfl] at he
        exact Eval.seqChain _ _ _ he
      | ifExp c t e =>
        simp only [runT] at h
        split at h
        · rename_i s1 hc
          exact Eval.ifTrue _ _ _ _ _ _ _ (ih _ _ _ _ hc).1 (ih _ _ _ _ h).1
        · rename_i s1 hc
          exact Eval.ifFalse _ _ _ _ _ _ _ (ih _ _ _ _ hc).1 (ih _ _ _ _ h).1
        · cases h
      | and_ a c =>
        simp only [runT] at h
        split at h
        · rename_i s1 ha
          exact Eval.andTrue _ _ _ _ _ _ (ih _ _ _ _ ha).1 (ih _ _ _ _ h).1
        · rename_i s1 ha
          simp only [Option.some.injEq, Prod.mk.injEq] at h
          obtain ⟨rfl, rfl⟩ := h
          exact Eval.andFalse _ _ _ _ (ih _ _ _ _ ha).1
        · cases h
      | or_ a c =>
        simp only [runT] at h
        split at h
        · rename_i s1 ha
          simp only [Option.some.injEq, Prod.mk.injEq] at h
          obtain ⟨rfl, rfl⟩ := h
          exact Eval.orTrue _ _ _ _ (ih _ _ _ _ ha).1
        · rename_i s1 ha
          exact Eval.orFalse _ _ _ _ _ _ (ih _ _ _ _ ha).1 (ih _ _ _ _ h).1
        · cases h
      | whileComp test body =>
        simp only [runT] at h
        exact Eval.whileComp _ _ _ _ _ (ih _ _ _ _ h).1
      | forComp c w body =>
        cases w with
        | false =>
          simp only [runT] at h
          exact Eval.forPlain _ _ _ _ _ (ih _ _ _ _ h).1
        | true =>
          simp only [runT] at h
          exact Eval.forWrapped _ _ _ _ _ (ih _ _ _ _ h).1
    | seq ts =>
      cases ts with
      | nil =>
        simp only [runT, Option.some.injEq, Prod.mk.injEq] at h
        obtain ⟨rfl, rfl⟩ := h
        exact ⟨Eval.seqNil s, fun _ _ => rfl⟩
      | cons t ts =>
        simp only [runT] at h
        split at h
        · rename_i s1 b1 ht
          obtain ⟨he, hb⟩ := ih _ _ _ _ h
          have hbt : b = true := hb ts rfl
          subst hbt
          exact ⟨Eval.seqCons _ _ _ _ _ _ (ih _ _ _ _ ht).1 he, fun _ _ => rfl⟩
        · cases h
    | wloop test body =>
      refine ⟨?_, fun ts h' => by cases h'⟩
      simp only [runT] at h
      split at h
      · rename_i s1 ht
        simp only [Option.some.injEq, Prod.mk.injEq] at h
        obtain ⟨rfl, rfl⟩ := h
        exact Eval.wStop _ _ _ _ (ih _ _ _ _ ht).1
      · rename_i s1 ht
        split at h
        · rename_i s2 b2 hb
          simp only [Option.map_eq_some_iff, Prod.mk.injEq, Prod.exists] at h
          obtain ⟨s3, b3, hr, rfl, rfl⟩ := h
          exact Eval.wStep _ _ _ _ _ _ _ _ (ih _ _ _ _ ht).1 (ih _ _ _ _ hb).1 (ih _ _ _ _ hr).1
        · cases h
      · cases h
    | floop c w body =>
      refine ⟨?_, fun ts h' => by cases h'⟩
      simp only [runT] at h
      split at h
      · rename_i hw
        simp only [Bool.and_eq_true] at hw
        simp only [Option.some.injEq, Prod.mk.injEq] at h
        obtain ⟨rfl, rfl⟩ := h
        obtain ⟨hw1, hw2⟩ := hw
        subst hw1
        exact Eval.fBroken _ _ _ hw2
      · rename_i hw
        have hopen : w = true → s.fl (.brk c) = false := by
          intro hw1
          subst hw1
          simpa using hw
        split at h
        · rename_i hn
          split at h
          · rename_i s2 b2 hb
            simp only [Option.map_eq_some_iff, Prod.mk.injEq, Prod.exists] at h
            obtain ⟨s3, b3, hr, rfl, rfl⟩ := h
            exact Eval.fStep _ _ _ _ _ _ _ _ hopen hn (ih _ _ _ _ hb).1 (ih _ _ _ _ hr).1
          · cases h
        · rename_i hn
          simp only [Option.some.injEq, Prod.mk.injEq] at h
          obtain ⟨rfl, rfl⟩ := h
          exact Eval.fStop _ _ _ _ hopen (by simpa using hn)

end OlVerif.Ctrl
