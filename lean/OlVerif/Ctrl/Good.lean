/-
  M-CTRL, part 8: the side conditions are inherited by sub-items; shapes of the lowered loops.
-/
import OlVerif.Ctrl.Proof

set_option linter.unusedSimpArgs false
set_option linter.unusedVariables false

namespace OlVerif.Ctrl

variable {σ : Type} {W : World σ}

theorem fresh_sub {cx : Cx} {a b : List Nat} (h : Fresh cx a) (hs : ∀ x ∈ b, x ∈ a) : Fresh cx b :=
  fun c hc l hl => h c (hs c hc) l hl

theorem goodB_ite_t {cx : Cx} {c : Nat} {t e : List Sk} (h : GoodS cx (.ite c t e)) : GoodB cx t := by
  obtain ⟨h1, h2, h3, h4⟩ := h
  simp only [wf, Bool.and_eq_true] at h1
  refine ⟨h1.1, fresh_sub h2 (by intro x hx; simp [loopIds, hx]), ?_, h4⟩
  intro hg
  apply h3
  simp [guardsInS, hg]

theorem goodB_ite_e {cx : Cx} {c : Nat} {t e : List Sk} (h : GoodS cx (.ite c t e)) : GoodB cx e := by
  obtain ⟨h1, h2, h3, h4⟩ := h
  simp only [wf, Bool.and_eq_true] at h1
  refine ⟨h1.2, fresh_sub h2 (by intro x hx; simp [loopIds, hx]), ?_, h4⟩
  intro hg
  apply h3
  simp [guardsInS, hg]

theorem good_whl {cx : Cx} {c : Nat} {b e : List Sk} (h : GoodS cx (.whl c b e)) :
    GoodLoop cx c b ∧ GoodB cx e := by
  obtain ⟨h1, h2, h3, h4⟩ := h
  simp only [wf, Bool.and_eq_true, Bool.not_eq_true', List.contains_eq_mem, decide_eq_false_iff_not] at h1
  refine ⟨⟨h1.1.2, fresh_sub h2 ?_, h1.1.1, h4⟩, ⟨h1.2, fresh_sub h2 ?_, ?_, h4⟩⟩
  · intro x hx
    simp only [List.mem_cons] at hx
    simp only [loopIds, List.mem_cons, List.mem_append]
    rcases hx with hx | hx
    · exact Or.inl hx
    · exact Or.inr (Or.inl hx)
  · intro x hx; simp [loopIds, hx]
  · intro hg
    apply h3
    simp [guardsInS, hg]

theorem good_for {cx : Cx} {c : Nat} {b e : List Sk} (h : GoodS cx (.for_ c b e)) :
    GoodLoop cx c b ∧ GoodB cx e := by
  obtain ⟨h1, h2, h3, h4⟩ := h
  simp only [wf, Bool.and_eq_true, Bool.not_eq_true', List.contains_eq_mem, decide_eq_false_iff_not] at h1
  refine ⟨⟨h1.1.2, fresh_sub h2 ?_, h1.1.1, h4⟩, ⟨h1.2, fresh_sub h2 ?_, ?_, h4⟩⟩
  · intro x hx
    simp only [List.mem_cons] at hx
    simp only [loopIds, List.mem_cons, List.mem_append]
    rcases hx with hx | hx
    · exact Or.inl hx
    · exact Or.inr (Or.inl hx)
  · intro x hx; simp [loopIds, hx]
  · intro hg
    apply h3
    simp [guardsInS, hg]

theorem goodB_push {cx : Cx} {c : Nat} {b : List Sk} (w : Bool) (h : GoodLoop cx c b) :
    GoodB (cx.push ⟨c, w, guardsInL .loop b⟩) b := by
  obtain ⟨h1, h2, h3, h4⟩ := h
  refine ⟨?_, ?_, ?_, ?_⟩
  · have he : (cx.push ⟨c, w, guardsInL .loop b⟩).loops.isEmpty = false := by simp
    rw [he]
    exact h1
  · intro d hd l hl
    simp only [push_loops, List.mem_append, List.mem_singleton] at hl
    rcases hl with hl | rfl
    · exact h2 d (by simp [hd]) l hl
    · intro e; simp only at e; exact h3 (e ▸ hd)
  · intro hg
    rw [push_ownerUsed]
    rw [push_fk] at hg
    exact hg
  · unfold Distinct
    rw [push_loops, List.pairwise_append]
    refine ⟨h4, List.pairwise_singleton _ _, ?_⟩
    intro a ha b' hb'
    simp only [List.mem_singleton] at hb'
    subst hb'
    exact h2 c (by simp) a ha

theorem goodS_of_cons {cx : Cx} {x : Sk} {xs : List Sk} (h : GoodB cx (x :: xs)) : GoodS cx x := by
  obtain ⟨h1, h2, h3, h4⟩ := h
  simp only [wfL, Bool.and_eq_true] at h1
  refine ⟨h1.1, fresh_sub h2 (by intro y hy; simp [loopIdsL, hy]), ?_, h4⟩
  intro hg
  apply h3
  simp only [guardsInL]
  cases hd : x.isDirect
  · simp [hg]
  · cases x <;> simp [Sk.isDirect] at hd <;> simp [guardsInS] at hg

theorem goodB_of_cons {cx : Cx} {x : Sk} {xs : List Sk} (h : GoodB cx (x :: xs)) (hd : x.isDirect = false) :
    GoodB cx xs := by
  obtain ⟨h1, h2, h3, h4⟩ := h
  simp only [wfL, Bool.and_eq_true] at h1
  refine ⟨h1.2, fresh_sub h2 (by intro y hy; simp [loopIdsL, hy]), ?_, h4⟩
  intro hg
  apply h3
  simp [guardsInL, hd, hg]

/-- the innermost loop's flags are not among the outer flags -/
theorem outer_ne_inner {cx : Cx} {l : LCtx} (hd : Distinct cx) (hl : cx.loops.getLast? = some l) {f : Flag}
    (hf : f ∈ outerFlags cx) : f ≠ .brk l.id ∧ f ≠ .intr l.id := by
  have hne : cx.loops ≠ [] := by intro h0; rw [h0] at hl; simp at hl
  have hsplit : cx.loops.dropLast ++ [l] = cx.loops := by
    have h1 := List.dropLast_concat_getLast hne
    have h2 : cx.loops.getLast hne = l := by
      have := List.getLast?_eq_some_getLast hne
      rw [hl] at this
      exact (Option.some.inj this).symm
    rw [h2] at h1
    exact h1
  unfold Distinct at hd
  rw [← hsplit, List.pairwise_append] at hd
  obtain ⟨_, _, hcross⟩ := hd
  simp only [outerFlags, loopFlags, List.mem_append, List.mem_flatMap, List.mem_cons, List.mem_singleton,
    List.not_mem_nil, or_false] at hf
  rcases hf with ⟨l', hl', h1 | h1⟩ | h1
  · subst h1
    constructor
    · intro e
      injection e with e
      exact hcross l' hl' l (by simp) e
    · intro e
      cases e
  · subst h1
    constructor
    · intro e
      cases e
    · intro e
      injection e with e
      exact hcross l' hl' l (by simp) e
  · subst h1
    constructor
    · intro e
      cases e
    · intro e
      cases e

/-! ### shapes -/

theorem lowerS_whl (cx : Cx) (c : Nat) (b e : List Sk) :
    lowerS cx (.whl c b e) =
      (if hasBreakL b then [T.setFlag (.brk c) false] else []) ++ [.whileComp (whileTest c b) (whileBody cx c b)] ++
        (if e.isEmpty then [] else
          [if hasBreakL b then T.ifExp (.readNot (.brk c)) (wrapT cx.wrap (lowerB cx e)) .ell
           else wrapT cx.wrap (lowerB cx e)]) := by
  simp only [lowerS, whileTest, whileBody, resetIntr]

theorem lowerS_for (cx : Cx) (c : Nat) (b e : List Sk) :
    lowerS cx (.for_ c b e) =
      (if hasBreakL b then [T.openWrapped c] else []) ++ [.forComp c (hasBreakL b) (forBody cx c b)] ++
        (if e.isEmpty then [] else
          [if hasBreakL b then T.ifExp (.readNotBreakAttr c) (wrapT cx.wrap (lowerB cx e)) .ell
           else wrapT cx.wrap (lowerB cx e)]) := by
  simp only [lowerS, forBody, resetIntr]
  split
  · rename_i h
    simp only [Bool.and_eq_true, Bool.not_eq_true'] at h
    have hb : hasBreakL b = false := by
      cases hh : hasBreakL b
      · rfl
      · have := hasBreakL_anyIntL b hh; rw [h.1] at this; cases this
    have hg : guardsInL .loop b = false := by
      cases hh : guardsInL .loop b
      · rfl
      · have := guardsInL_anyIntL b hh; rw [h.1] at this; cases this
    simp [hb, hg, h.2]
  · rfl

end OlVerif.Ctrl
