/-
  M-CTRL, part 3: executable (fuel-bounded) versions of the two semantics, used by the
  correspondence check to compare the *modelled* semantics with CPython (K2), and the concrete
  tree `emit` produces for a lowered skeleton (K1: compared with the converter's output).
-/
import OlVerif.Ctrl.Sem

namespace OlVerif.Ctrl

variable {σ : Type}

/-- executable source semantics; `none` = out of fuel -/
def runS (W : World σ) : Nat → Item → σ → Option (σ × Sig)
  | 0, _, _ => none
  | fuel + 1, item, s =>
    match item with
    | .stmt (.atom i) => some ((W.atom i s).1, .normal)
    | .stmt .pass => some (s, .normal)
    | .stmt .brk => some (s, .brk)
    | .stmt .cont => some (s, .cont)
    | .stmt (.ret none) => some (s, .ret none)
    | .stmt (.ret (some i)) => some ((W.retv i s).1, .ret (some (W.retv i s).2.1))
    | .stmt (.ite c t e) =>
      if (W.cond c s).2 then runS W fuel (.block t) (W.cond c s).1 else runS W fuel (.block e) (W.cond c s).1
    | .stmt (.whl c b e) =>
      match runS W fuel (.wloop c b) s with
      | some (s1, .normal) => runS W fuel (.block e) s1
      | some (s1, .brk) => some (s1, .normal)
      | some (s1, .ret v) => some (s1, .ret v)
      | _ => none
    | .stmt (.for_ c b e) =>
      match runS W fuel (.floop c b) (W.iterOpen c s) with
      | some (s1, .normal) => runS W fuel (.block e) s1
      | some (s1, .brk) => some (s1, .normal)
      | some (s1, .ret v) => some (s1, .ret v)
      | _ => none
    | .block [] => some (s, .normal)
    | .block (x :: xs) =>
      match runS W fuel (.stmt x) s with
      | some (s1, .normal) => runS W fuel (.block xs) s1
      | r => r
    | .wloop c b =>
      if (W.cond c s).2 then
        match runS W fuel (.block b) (W.cond c s).1 with
        | some (s1, .normal) => runS W fuel (.wloop c b) s1
        | some (s1, .cont) => runS W fuel (.wloop c b) s1
        | r => r
      else some ((W.cond c s).1, .normal)
    | .floop c b =>
      if (W.iterNext c s).2 then
        match runS W fuel (.block b) (W.iterNext c s).1 with
        | some (s1, .normal) => runS W fuel (.floop c b) s1
        | some (s1, .cont) => runS W fuel (.floop c b) s1
        | r => r
      else some ((W.iterNext c s).1, .normal)

/-- executable target semantics -/
def runT (W : World σ) : Nat → TItem → TS σ → Option (TS σ × Bool)
  | 0, _, _ => none
  | fuel + 1, item, s =>
    match item with
    | .expr (.atom i) => some ({ s with st := (W.atom i s.st).1 }, (W.atom i s.st).2)
    | .expr (.cond i) => some ({ s with st := (W.cond i s.st).1 }, (W.cond i s.st).2)
    | .expr .ell => some (s, true)
    | .expr .one => some (s, true)
    | .expr (.setFlag f v) => some ({ s with fl := setF s.fl f v }, v)
    | .expr (.readNot f) => some (s, !s.fl f)
    | .expr (.setRetv i) =>
        some ({ s with st := (W.retv i s.st).1, rv := some (W.retv i s.st).2.1 }, (W.retv i s.st).2.2)
    | .expr (.setBreakAttr c) => some ({ s with fl := setF s.fl (.brk c) true }, false)
    | .expr (.readNotBreakAttr c) => some (s, !s.fl (.brk c))
    | .expr (.openWrapped c) => some ({ s with st := W.iterOpen c s.st, fl := setF s.fl (.brk c) false }, true)
    | .expr (.bindItem c) => some (s, W.itemTruthy c s.st)
    | .expr (.seqList ts) => (runT W fuel (.seq ts) s).map fun (s', _) => (s', !ts.isEmpty)
    | .expr (.seqChain ts) => (runT W fuel (.seq ts) s).map fun (s', _) => (s', true)
    | .expr (.ifExp c t e) =>
      match runT W fuel (.expr c) s with
      | some (s1, true) => runT W fuel (.expr t) s1
      | some (s1, false) => runT W fuel (.expr e) s1
      | none => none
    | .expr (.and_ a b) =>
      match runT W fuel (.expr a) s with
      | some (s1, true) => runT W fuel (.expr b) s1
      | some (s1, false) => some (s1, false)
      | none => none
    | .expr (.or_ a b) =>
      match runT W fuel (.expr a) s with
      | some (s1, true) => some (s1, true)
      | some (s1, false) => runT W fuel (.expr b) s1
      | none => none
    | .expr (.whileComp test body) => runT W fuel (.wloop test body) s
    | .expr (.forComp c false body) => runT W fuel (.floop c false body) { s with st := W.iterOpen c s.st }
    | .expr (.forComp c true body) => runT W fuel (.floop c true body) s
    | .seq [] => some (s, true)
    | .seq (t :: ts) =>
      match runT W fuel (.expr t) s with
      | some (s1, _) => runT W fuel (.seq ts) s1
      | none => none
    | .wloop test body =>
      match runT W fuel (.expr test) s with
      | some (s1, false) => some (s1, false)
      | some (s1, true) =>
        match runT W fuel (.expr body) s1 with
        | some (s2, _) => (runT W fuel (.wloop test body) s2).map fun (s3, _) => (s3, true)
        | none => none
      | none => none
    | .floop c w body =>
      if w && s.fl (.brk c) then some (s, false)
      else if (W.iterNext c s.st).2 then
        match runT W fuel (.expr body) { s with st := (W.iterNext c s.st).1 } with
        | some (s2, _) => (runT W fuel (.floop c w body) s2).map fun (s3, _) => (s3, true)
        | none => none
      else some ({ s with st := (W.iterNext c s.st).1 }, false)

/-! ### concrete trees -/

def flagName : Flag → String
  | .brk c => s!"__ol_break_#{c}"
  | .intr c => s!"__ol_interrupt_#{c}"
  | .ret => "__ol_ret_#0"

def itName (c : Nat) : String := s!"__ol_it_#{c}"
def itemName (c : Nat) : String := s!"__ol_item_#{c}"
def retvName : String := "__ol_retv_#0"

def probe (f : String) (i : Nat) : Expr := .call (.name f) [.const (.int i)] []

def emitWrap (w : Wrapper) (es : List Expr) : Expr := wrapExprs { wrapper := w } es

mutual
  /-- the tree the converter emits for this target term (skeleton probes `m(i)`, `c(i)`, `it(i)`,
      `r(i)`; for-loop targets `x<i>`) -/
  def emit : T → Expr
    | .atom i => probe "m" i
    | .cond i => probe "c" i
    | .ell => Expr.ellipsis
    | .one => .const (.int 1)
    | .setFlag f v => setFlag (flagName f) v
    | .readNot f => Expr.not_ (.name (flagName f))
    | .setRetv i => .namedExpr retvName (probe "r" i)
    | .setBreakAttr c => .call (.name "setattr") [.name (itName c), Expr.str "_break", Expr.true_] []
    | .readNotBreakAttr c => Expr.not_ (.attribute (.name (itName c)) "_break")
    | .openWrapped c => .namedExpr (itName c) (.call (.name iterWrapperName) [probe "it" c] [])
    | .bindItem c => .namedExpr s!"x{c}" (.name (itemName c))
    | .seqList ts => .list (emitL ts)
    | .seqChain ts => chainCallWrapper (emitL ts)
    | .ifExp c t e => .ifExp (emit c) (emit t) (emit e)
    | .and_ a b => .boolOp .and_ [emit a, emit b]
    | .or_ a b => .boolOp .or_ [emit a, emit b]
    | .whileComp test body => .listComp (emit body) [.mk (.name whileCounter) (takewhileIter (emit test)) [] false]
    | .forComp c wrapped body =>
        .listComp (emit body) [.mk (.name (itemName c)) (if wrapped then .name (itName c) else probe "it" c) [] false]
  def emitL : List T → List Expr
    | [] => []
    | t :: ts => emit t :: emitL ts
end

/-- a live while loop occurs (the itertools import is emitted) -/
def usesWhile : List Sk → Bool
  | [] => false
  | .whl .. :: _ => true
  | .ite _ t e :: rest => usesWhile t || usesWhile e || usesWhile rest
  | .for_ _ b e :: rest => usesWhile b || usesWhile e || usesWhile rest
  | .brk :: _ | .cont :: _ | .ret _ :: _ => false
  | _ :: rest => usesWhile rest

/-- a live for loop with a break occurs (the iterator-wrapper preset is emitted) -/
def usesWrapped : List Sk → Bool
  | [] => false
  | .for_ _ b e :: rest => hasBreakL b || usesWrapped b || usesWrapped e || usesWrapped rest
  | .ite _ t e :: rest => usesWrapped t || usesWrapped e || usesWrapped rest
  | .whl _ b e :: rest => usesWrapped b || usesWrapped e || usesWrapped rest
  | .brk :: _ | .cont :: _ | .ret _ :: _ => false
  | _ :: rest => usesWrapped rest

/-- the whole output for a module-level / function-level skeleton, as `convert` builds it
    (preset and itertools import first; function: `f := lambda: [retv := None, ..., retv][-1]`,
    followed by `RESULT.append(f())`) -/
def emitTop (style : IfStyle) (wrap : Wrapper) (inFn : Bool) (body : List Sk) : Expr :=
  let pre : List Expr :=
    (if usesWrapped body then [iterWrapperBody] else []) ++
    (if usesWhile body then [Expr.namedExpr "itertools" (.call (.name "__import__") [Expr.str "itertools"] [])] else [])
  if inFn then
    let used := guardsInL .function body
    let ts := lowerB { style := style, wrap := wrap, loops := [], inFn := true, fnUsed := used } body
    let inner := emitL ts
    let mid := match wrap with
      | .list => inner
      | .chainCall => [emitWrap wrap inner]
    let fbody : List Expr :=
      [Expr.namedExpr retvName Expr.none_] ++ (if used then [setFlag (flagName .ret) false] else []) ++ mid ++ [.name retvName]
    let lam : Expr := .lambda Arguments.empty (.subscript (.list fbody) Expr.neg1)
    emitWrap wrap (pre ++ [.namedExpr "f" lam,
      .call (.attribute (.name "RESULT") "append") [.call (.name "f") [] []] []])
  else
    emitWrap wrap (pre ++ emitL (lowerModule style wrap body))

end OlVerif.Ctrl
