/-
  M-CTRL, part 2: semantics.

  An abstract *world* interprets atoms, conditions, iterables, iterator steps and return values
  as arbitrary state transformers over an arbitrary state type, so one theorem covers every user
  program state, every branch schedule, one-shot iterators and side-effecting conditions.

  `Exec` is the textbook big-step semantics of the source skeleton (signals normal / break /
  continue / return).  `Eval` gives each target construct its evaluation, truthiness of every
  intermediate value included (the short-circuit style branches on it).  The semantics of the
  three library idioms (takewhile/count comprehension, list comprehension over an iterator, the
  iterator wrapper with its `_break` attribute) is *modelled* here; the correspondence check
  compares these semantics with CPython on every generated skeleton.
-/
import OlVerif.Ctrl.Model

namespace OlVerif.Ctrl

structure World (σ : Type) where
  atom : Nat → σ → σ × Bool              -- run simple statement i: new state, truthiness of its value
  cond : Nat → σ → σ × Bool              -- evaluate condition i: new state, outcome
  iterOpen : Nat → σ → σ                 -- evaluate iterable i and take iter() of it
  iterNext : Nat → σ → σ × Bool          -- advance the iterator of loop i: new state, "an item was produced"
  itemTruthy : Nat → σ → Bool            -- truthiness of the item just produced (value of `(target := item)`)
  retv : Nat → σ → σ × Nat × Bool        -- evaluate return value i: new state, the value, its truthiness

inductive Sig
  | normal
  | brk
  | cont
  | ret (v : Option Nat)
  deriving DecidableEq, Repr

/-- what is executed: a statement, a block, the iterations of a while loop, the iterations of a
    for loop whose iterator is already open -/
inductive Item
  | stmt (s : Sk)
  | block (b : List Sk)
  | wloop (c : Nat) (b : List Sk)
  | floop (c : Nat) (b : List Sk)

/-- **Source semantics.**  For the loop items the signal is `normal` (ran to exhaustion),
    `brk` (left by break) or `ret v`. -/
inductive Exec {σ : Type} (W : World σ) : Item → σ → σ → Sig → Prop
  | atom (i s) : Exec W (.stmt (.atom i)) s (W.atom i s).1 .normal
  | pass (s) : Exec W (.stmt .pass) s s .normal
  | brk (s) : Exec W (.stmt .brk) s s .brk
  | cont (s) : Exec W (.stmt .cont) s s .cont
  | retNone (s) : Exec W (.stmt (.ret none)) s s (.ret none)
  | retSome (i s) : Exec W (.stmt (.ret (some i))) s (W.retv i s).1 (.ret (some (W.retv i s).2.1))
  | iteTrue (c t e s s' sig) : (W.cond c s).2 = true → Exec W (.block t) (W.cond c s).1 s' sig →
      Exec W (.stmt (.ite c t e)) s s' sig
  | iteFalse (c t e s s' sig) : (W.cond c s).2 = false → Exec W (.block e) (W.cond c s).1 s' sig →
      Exec W (.stmt (.ite c t e)) s s' sig
  -- while: iterations, then else iff not broken
  | whlDone (c b e s s1 s2 sig) : Exec W (.wloop c b) s s1 .normal → Exec W (.block e) s1 s2 sig →
      Exec W (.stmt (.whl c b e)) s s2 sig
  | whlBrk (c b e s s1) : Exec W (.wloop c b) s s1 .brk → Exec W (.stmt (.whl c b e)) s s1 .normal
  | whlRet (c b e s s1 v) : Exec W (.wloop c b) s s1 (.ret v) → Exec W (.stmt (.whl c b e)) s s1 (.ret v)
  | forDone (c b e s s1 s2 sig) : Exec W (.floop c b) (W.iterOpen c s) s1 .normal → Exec W (.block e) s1 s2 sig →
      Exec W (.stmt (.for_ c b e)) s s2 sig
  | forBrk (c b e s s1) : Exec W (.floop c b) (W.iterOpen c s) s1 .brk → Exec W (.stmt (.for_ c b e)) s s1 .normal
  | forRet (c b e s s1 v) : Exec W (.floop c b) (W.iterOpen c s) s1 (.ret v) →
      Exec W (.stmt (.for_ c b e)) s s1 (.ret v)
  -- blocks
  | nil (s) : Exec W (.block []) s s .normal
  | consNormal (x xs s s1 s2 sig) : Exec W (.stmt x) s s1 .normal → Exec W (.block xs) s1 s2 sig →
      Exec W (.block (x :: xs)) s s2 sig
  | consStop (x xs s s1 sig) : Exec W (.stmt x) s s1 sig → sig ≠ .normal → Exec W (.block (x :: xs)) s s1 sig
  -- while iterations
  | wExit (c b s) : (W.cond c s).2 = false → Exec W (.wloop c b) s (W.cond c s).1 .normal
  | wNext (c b s s1 s2 sig sig') : (W.cond c s).2 = true → Exec W (.block b) (W.cond c s).1 s1 sig →
      (sig = .normal ∨ sig = .cont) → Exec W (.wloop c b) s1 s2 sig' → Exec W (.wloop c b) s s2 sig'
  | wBrk (c b s s1) : (W.cond c s).2 = true → Exec W (.block b) (W.cond c s).1 s1 .brk →
      Exec W (.wloop c b) s s1 .brk
  | wRet (c b s s1 v) : (W.cond c s).2 = true → Exec W (.block b) (W.cond c s).1 s1 (.ret v) →
      Exec W (.wloop c b) s s1 (.ret v)
  -- for iterations
  | fExit (c b s) : (W.iterNext c s).2 = false → Exec W (.floop c b) s (W.iterNext c s).1 .normal
  | fNext (c b s s1 s2 sig sig') : (W.iterNext c s).2 = true → Exec W (.block b) (W.iterNext c s).1 s1 sig →
      (sig = .normal ∨ sig = .cont) → Exec W (.floop c b) s1 s2 sig' → Exec W (.floop c b) s s2 sig'
  | fBrk (c b s s1) : (W.iterNext c s).2 = true → Exec W (.block b) (W.iterNext c s).1 s1 .brk →
      Exec W (.floop c b) s s1 .brk
  | fRet (c b s s1 v) : (W.iterNext c s).2 = true → Exec W (.block b) (W.iterNext c s).1 s1 (.ret v) →
      Exec W (.floop c b) s s1 (.ret v)

/-! ### target -/

/-- target state: user state, flags, the return-value cell -/
structure TS (σ : Type) where
  st : σ
  fl : Flag → Bool
  rv : Option Nat

def setF (fl : Flag → Bool) (f : Flag) (v : Bool) : Flag → Bool := fun g => if g = f then v else fl g

inductive TItem
  | expr (t : T)
  | seq (ts : List T)                       -- evaluate in order (elements of a display / chain of calls)
  | wloop (test body : T)                   -- the iterations of the takewhile comprehension
  | floop (c : Nat) (wrapped : Bool) (body : T)   -- the iterations of the comprehension over the iterator

/-- **Target semantics.**  The Boolean is the truthiness of the value (for `seq`: unused, `true`;
    for the loop items: "at least one iteration", i.e. truthiness of the list built). -/
inductive Eval {σ : Type} (W : World σ) : TItem → TS σ → TS σ → Bool → Prop
  | atom (i s) : Eval W (.expr (.atom i)) s { s with st := (W.atom i s.st).1 } (W.atom i s.st).2
  | cond (i s) : Eval W (.expr (.cond i)) s { s with st := (W.cond i s.st).1 } (W.cond i s.st).2
  | ell (s) : Eval W (.expr .ell) s s true
  | one (s) : Eval W (.expr .one) s s true
  | setFlag (f v s) : Eval W (.expr (.setFlag f v)) s { s with fl := setF s.fl f v } v
  | readNot (f s) : Eval W (.expr (.readNot f)) s s (!s.fl f)
  | setRetv (i s) : Eval W (.expr (.setRetv i)) s
      { s with st := (W.retv i s.st).1, rv := some (W.retv i s.st).2.1 } (W.retv i s.st).2.2
  | setBreakAttr (c s) : Eval W (.expr (.setBreakAttr c)) s { s with fl := setF s.fl (.brk c) true } false
  | readNotBreakAttr (c s) : Eval W (.expr (.readNotBreakAttr c)) s s (!s.fl (.brk c))
  | openWrapped (c s) : Eval W (.expr (.openWrapped c)) s
      { s with st := W.iterOpen c s.st, fl := setF s.fl (.brk c) false } true
  | bindItem (c s) : Eval W (.expr (.bindItem c)) s s (W.itemTruthy c s.st)
  | seqList (ts s s') : Eval W (.seq ts) s s' true → Eval W (.expr (.seqList ts)) s s' (!ts.isEmpty)
  | seqChain (ts s s') : Eval W (.seq ts) s s' true → Eval W (.expr (.seqChain ts)) s s' true
  | ifTrue (c t e s s1 s2 b) : Eval W (.expr c) s s1 true → Eval W (.expr t) s1 s2 b →
      Eval W (.expr (.ifExp c t e)) s s2 b
  | ifFalse (c t e s s1 s2 b) : Eval W (.expr c) s s1 false → Eval W (.expr e) s1 s2 b →
      Eval W (.expr (.ifExp c t e)) s s2 b
  | andTrue (a b s s1 s2 v) : Eval W (.expr a) s s1 true → Eval W (.expr b) s1 s2 v →
      Eval W (.expr (.and_ a b)) s s2 v
  | andFalse (a b s s1) : Eval W (.expr a) s s1 false → Eval W (.expr (.and_ a b)) s s1 false
  | orTrue (a b s s1) : Eval W (.expr a) s s1 true → Eval W (.expr (.or_ a b)) s s1 true
  | orFalse (a b s s1 s2 v) : Eval W (.expr a) s s1 false → Eval W (.expr b) s1 s2 v →
      Eval W (.expr (.or_ a b)) s s2 v
  | whileComp (test body s s' n) : Eval W (.wloop test body) s s' n →
      Eval W (.expr (.whileComp test body)) s s' n
  | forPlain (c body s s' n) : Eval W (.floop c false body) { s with st := W.iterOpen c s.st } s' n →
      Eval W (.expr (.forComp c false body)) s s' n
  | forWrapped (c body s s' n) : Eval W (.floop c true body) s s' n →
      Eval W (.expr (.forComp c true body)) s s' n
  -- sequences
  | seqNil (s) : Eval W (.seq []) s s true
  | seqCons (t ts s s1 s2 b) : Eval W (.expr t) s s1 b → Eval W (.seq ts) s1 s2 true →
      Eval W (.seq (t :: ts)) s s2 true
  -- takewhile(lambda: test, count()): the predicate is called before every element
  | wStop (test body s s1) : Eval W (.expr test) s s1 false → Eval W (.wloop test body) s s1 false
  | wStep (test body s s1 s2 s3 b n) : Eval W (.expr test) s s1 true → Eval W (.expr body) s1 s2 b →
      Eval W (.wloop test body) s2 s3 n → Eval W (.wloop test body) s s3 true
  -- iteration over the (wrapped) iterator: the wrapper's __next__ stops without advancing once `_break` is set
  | fBroken (c body s) : s.fl (.brk c) = true → Eval W (.floop c true body) s s false
  | fStop (c w body s) : (w = true → s.fl (.brk c) = false) → (W.iterNext c s.st).2 = false →
      Eval W (.floop c w body) s { s with st := (W.iterNext c s.st).1 } false
  | fStep (c w body s s2 s3 b n) : (w = true → s.fl (.brk c) = false) → (W.iterNext c s.st).2 = true →
      Eval W (.expr body) { s with st := (W.iterNext c s.st).1 } s2 b →
      Eval W (.floop c w body) s2 s3 n → Eval W (.floop c w body) s s3 true

end OlVerif.Ctrl
