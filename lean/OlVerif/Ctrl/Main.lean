/-
  M-CTRL, part 9: the main induction - every source execution is matched by an evaluation of the
  lowered code with the same effect on the user state, the flags ending as the exit condition
  of the signal says.
-/
import OlVerif.Ctrl.Good

set_option linter.unusedSimpArgs false
set_option linter.unusedVariables false

namespace OlVerif.Ctrl

variable {σ : Type} {W : World σ}

def Goal (W : World σ) : Item → σ → σ → Sig → Prop
  | .stmt x, s, s', sig => ∀ (cx : Cx) (fl : Flag → Bool) (rv : Option Nat), GoodS cx x → Inv cx fl →
      ∃ fl' rv', Eval W (.seq (lowerS cx x)) ⟨s, fl, rv⟩ ⟨s', fl', rv'⟩ true ∧ Post cx sig fl rv fl' rv'
  | .block b, s, s', sig => ∀ (cx : Cx) (fl : Flag → Bool) (rv : Option Nat), GoodB cx b → Inv cx fl →
      ∃ fl' rv', Eval W (.seq (lowerB cx b)) ⟨s, fl, rv⟩ ⟨s', fl', rv'⟩ true ∧ Post cx sig fl rv fl' rv'
  | .wloop c b, s, s', sig => ∀ (cx : Cx) (fl : Flag → Bool) (rv : Option Nat), GoodLoop cx c b →
      (hasBreakL b = true → fl (.brk c) = false) →
      ∃ fl' rv' n, Eval W (.wloop (whileTest c b) (whileBody cx c b)) ⟨s, fl, rv⟩ ⟨s', fl', rv'⟩ n ∧
        PostLoop cx ⟨c, true, guardsInL .loop b⟩ sig fl rv fl' rv'
  | .floop c b, s, s', sig => ∀ (cx : Cx) (fl : Flag → Bool) (rv : Option Nat), GoodLoop cx c b →
      (hasBreakL b = true → fl (.brk c) = false) →
      ∃ fl' rv' n, Eval W (.floop c (hasBreakL b) (forBody cx c b)) ⟨s, fl, rv⟩ ⟨s', fl', rv'⟩ n ∧
        PostLoop cx ⟨c, false, guardsInL .loop b⟩ sig fl rv fl' rv'

theorem post_normal_refl (cx : Cx) (fl : Flag → Bool) (rv : Option Nat) : Post cx .normal fl rv fl rv :=
  ⟨fun _ _ => rfl, rfl⟩

/-- evaluation of the list emitted for `return` (after the optional return-value store) -/
theorem eval_ret_sets (cx : Cx) (s : TS σ) :
    ∃ fl', Eval W (.seq (cx.loops.map LCtx.brkSet ++ (intrSets cx.loops.reverse ++
        (if cx.fnUsed then [T.setFlag .ret true] else [])))) s { s with fl := fl' } true ∧
      (∀ l ∈ cx.loops, fl' (.brk l.id) = true ∧ (l.used = true → fl' (.intr l.id) = true)) ∧
      (cx.fnUsed = true → fl' .ret = true) := by
  have hall : AllSets (cx.loops.map LCtx.brkSet ++ (intrSets cx.loops.reverse ++
      (if cx.fnUsed then [T.setFlag .ret true] else [])))
      ((cx.loops.map fun l => Flag.brk l.id) ++ (((cx.loops.reverse.filter (·.used)).map fun l => Flag.intr l.id) ++
        (if cx.fnUsed then [Flag.ret] else []))) := by
    apply allSets_append (brkSets_forall _) (allSets_append (intrSets_forall _) _)
    split
    · exact AllSets.cons (SetsTrue.flag _) AllSets.nil
    · exact AllSets.nil
  obtain ⟨fl', he, h1, h2⟩ := eval_setsTrue_list (W := W) hall s
  refine ⟨fl', he, ?_, ?_⟩
  · intro l hl
    constructor
    · apply h1
      simp only [List.mem_append, List.mem_map]
      exact Or.inl ⟨l, hl, rfl⟩
    · intro hu
      apply h1
      simp only [List.mem_append, List.mem_map, List.mem_filter, List.mem_reverse]
      exact Or.inr (Or.inl ⟨l, ⟨hl, by simpa using hu⟩, rfl⟩)
  · intro hf
    apply h1
    simp [hf]

/-! ### the lowered `if` -/

theorem eval_ite_true (cx : Cx) (c : Nat) (t e : List Sk) (s0 s2 : TS σ)
    (hc : (W.cond c s0.st).2 = true)
    (hb : Eval W (.seq (lowerB cx t)) { s0 with st := (W.cond c s0.st).1 } s2 true) :
    Eval W (.seq (lowerS cx (.ite c t e))) s0 s2 true := by
  obtain ⟨bt, hbt⟩ := eval_wrap cx.wrap hb
  have hcond : Eval W (.expr (.cond c)) s0 { s0 with st := (W.cond c s0.st).1 } true := by
    have := Eval.cond (W := W) c s0
    rw [hc] at this
    exact this
  simp only [lowerS]
  cases cx.style with
  | ifExpr => exact eval_seq_single (Eval.ifTrue _ _ _ _ _ _ _ hcond hbt)
  | shortCircuit =>
    simp only
    split
    · exact eval_seq_single (Eval.andTrue _ _ _ _ _ _ hcond hbt)
    · -- `c and [body] or else`: the one-element list is true whatever the body's value is
      have hor : Eval W (.expr (.seqList [wrapT cx.wrap (lowerB cx t)])) { s0 with st := (W.cond c s0.st).1 } s2 true :=
        Eval.seqList _ _ _ (eval_seq_single hbt)
      exact eval_seq_single (Eval.orTrue _ _ _ _ (Eval.andTrue _ _ _ _ _ _ hcond hor))

theorem eval_ite_false (cx : Cx) (c : Nat) (t e : List Sk) (s0 s2 : TS σ)
    (hc : (W.cond c s0.st).2 = false)
    (hb : Eval W (.seq (lowerB cx e)) { s0 with st := (W.cond c s0.st).1 } s2 true) :
    Eval W (.seq (lowerS cx (.ite c t e))) s0 s2 true := by
  obtain ⟨be, hbe⟩ := eval_wrap cx.wrap hb
  have hcond : Eval W (.expr (.cond c)) s0 { s0 with st := (W.cond c s0.st).1 } false := by
    have := Eval.cond (W := W) c s0
    rw [hc] at this
    exact this
  simp only [lowerS]
  cases cx.style with
  | ifExpr => exact eval_seq_single (Eval.ifFalse _ _ _ _ _ _ _ hcond hbe)
  | shortCircuit =>
    simp only
    split
    · rename_i he
      have : e = [] := by simpa using he
      subst this
      simp only [lowerB] at hb
      cases hb
      exact eval_seq_single (Eval.andFalse _ _ _ _ hcond)
    · exact eval_seq_single (Eval.orFalse _ _ _ _ _ _ (Eval.andFalse _ _ _ _ hcond) hbe)

/-! ### loop tests -/

/-- the while test when the loop has not been left: it is the user condition -/
theorem eval_whileTest_open (c : Nat) (b : List Sk) (s0 : TS σ)
    (hbrk : hasBreakL b = true → s0.fl (.brk c) = false) :
    Eval W (.expr (whileTest c b)) s0 { s0 with st := (W.cond c s0.st).1 } (W.cond c s0.st).2 := by
  unfold whileTest
  split
  · rename_i hb
    have h1 : Eval W (.expr (.readNot (.brk c))) s0 s0 true := by
      have := Eval.readNot (W := W) (.brk c) s0
      rw [hbrk hb] at this
      exact this
    exact Eval.andTrue _ _ _ _ _ _ h1 (Eval.cond c s0)
  · exact Eval.cond c s0

/-- the while test after break / return: false, and the user condition is *not* evaluated -/
theorem eval_whileTest_closed (c : Nat) (b : List Sk) (s0 : TS σ)
    (hb : hasBreakL b = true) (hbrk : s0.fl (.brk c) = true) :
    Eval W (.expr (whileTest c b)) s0 s0 false := by
  unfold whileTest
  simp only [hb, ↓reduceIte]
  have h1 : Eval W (.expr (.readNot (.brk c))) s0 s0 false := by
    have := Eval.readNot (W := W) (.brk c) s0
    rw [hbrk] at this
    exact this
  exact Eval.andFalse _ _ _ _ h1

/-- one evaluation of a loop body: reset of the interrupt flag, (binding of the item), the block -/
theorem eval_resetIntr (c : Nat) (b : List Sk) (s0 : TS σ) :
    ∃ fl1, Eval W (.seq (resetIntr c b)) s0 { s0 with fl := fl1 } true ∧
      (guardsInL .loop b = true → fl1 (.intr c) = false) ∧ (∀ f, f ≠ .intr c → fl1 f = s0.fl f) := by
  unfold resetIntr
  split
  · refine ⟨setF s0.fl (.intr c) false, eval_seq_single (Eval.setFlag _ _ _), fun _ => setF_same _ _ _, ?_⟩
    intro f hf
    exact setF_other _ _ _ _ hf
  · rename_i h
    exact ⟨s0.fl, Eval.seqNil _, fun hg => absurd hg h, fun _ _ => rfl⟩

/-- consequences of the body's exit condition (under the pushed context) for the flags of the
    outer context and the loop's own break flag, when the body ends normally or by `continue` -/
theorem body_frame {cx : Cx} {l : LCtx} {sig : Sig} {fl fl1 fl2 : Flag → Bool} {rv rv2 : Option Nat}
    (hfresh : Flag.brk l.id ∉ ctxFlags cx ∧ Flag.intr l.id ∉ ctxFlags cx)
    (h01 : ∀ f, f ≠ .intr l.id → fl1 f = fl f)
    (hs : sig = .normal ∨ sig = .cont) (hp : Post (cx.push l) sig fl1 rv fl2 rv2) :
    (∀ f ∈ ctxFlags cx, fl2 f = fl f) ∧ fl2 (.brk l.id) = fl (.brk l.id) ∧ rv2 = rv := by
  have hne : ∀ f ∈ ctxFlags cx, f ≠ .intr l.id := fun f hf e => hfresh.2 (e ▸ hf)
  rcases hs with rfl | rfl
  · obtain ⟨ha, hr⟩ := hp
    refine ⟨fun f hf => ?_, ?_, hr⟩
    · rw [ha f (mem_ctxFlags_push hf), h01 f (hne f hf)]
    · rw [ha _ (brk_mem_ctxFlags (cx := cx.push l) (by simp)), h01 _ (by intro e; cases e)]
  · obtain ⟨l', hl', hb, hi, ho, hr⟩ := hp
    rw [push_getLast] at hl'
    cases hl'
    refine ⟨fun f hf => ?_, ?_, hr⟩
    · rw [ho f (by rw [outerFlags_push]; exact hf), h01 f (hne f hf)]
    · rw [hb, h01 _ (by intro e; cases e)]

/-- chaining: a loop continued after a normal / continue iteration -/
theorem postLoop_trans {cx : Cx} {l : LCtx} {sig : Sig} {fl fl2 fl' : Flag → Bool} {rv rv2 rv' : Option Nat}
    (h1 : ∀ f ∈ ctxFlags cx, fl2 f = fl f) (h2 : fl2 (.brk l.id) = fl (.brk l.id)) (hr : rv2 = rv)
    (hp : PostLoop cx l sig fl2 rv2 fl' rv') : PostLoop cx l sig fl rv fl' rv' := by
  subst hr
  cases sig with
  | normal =>
    obtain ⟨ha, hb, hr⟩ := hp
    exact ⟨fun f hf => (ha f hf).trans (h1 f hf), hb.trans h2, hr⟩
  | brk =>
    obtain ⟨ha, hb, hr⟩ := hp
    exact ⟨fun f hf => (ha f hf).trans (h1 f hf), hb, hr⟩
  | cont => exact hp
  | ret v => exact hp

/-! ### one evaluation of a loop body -/

theorem eval_whileBody (cx : Cx) (c : Nat) (b : List Sk) (s1 s2 : σ) (sig : Sig) (fl : Flag → Bool) (rv : Option Nat)
    (ih : Goal W (.block b) s1 s2 sig) (hg : GoodLoop cx c b) :
    ∃ fl2 rv2 bw fl1, Eval W (.expr (whileBody cx c b)) ⟨s1, fl, rv⟩ ⟨s2, fl2, rv2⟩ bw ∧
      (∀ f, f ≠ .intr c → fl1 f = fl f) ∧ Post (cx.push ⟨c, true, guardsInL .loop b⟩) sig fl1 rv fl2 rv2 := by
  obtain ⟨fl1, hr, hz, h01⟩ := eval_resetIntr (W := W) c b ⟨s1, fl, rv⟩
  have hinv : Inv (cx.push ⟨c, true, guardsInL .loop b⟩) fl1 := by
    intro hu
    rw [push_ownerUsed] at hu
    rw [push_flowFlag]
    exact hz hu
  obtain ⟨fl2, rv2, he, hp⟩ := ih (cx.push ⟨c, true, guardsInL .loop b⟩) fl1 rv (goodB_push true hg) hinv
  obtain ⟨bw, hbw⟩ := eval_wrap cx.wrap (eval_seq_append hr he)
  exact ⟨fl2, rv2, bw, fl1, hbw, h01, hp⟩

theorem eval_forBody (cx : Cx) (c : Nat) (b : List Sk) (s1 s2 : σ) (sig : Sig) (fl : Flag → Bool) (rv : Option Nat)
    (ih : Goal W (.block b) s1 s2 sig) (hg : GoodLoop cx c b) :
    ∃ fl2 rv2 bw fl1, Eval W (.expr (forBody cx c b)) ⟨s1, fl, rv⟩ ⟨s2, fl2, rv2⟩ bw ∧
      (∀ f, f ≠ .intr c → fl1 f = fl f) ∧ Post (cx.push ⟨c, false, guardsInL .loop b⟩) sig fl1 rv fl2 rv2 := by
  obtain ⟨fl1, hr, hz, h01⟩ := eval_resetIntr (W := W) c b ⟨s1, fl, rv⟩
  have hinv : Inv (cx.push ⟨c, false, guardsInL .loop b⟩) fl1 := by
    intro hu
    rw [push_ownerUsed] at hu
    rw [push_flowFlag]
    exact hz hu
  obtain ⟨fl2, rv2, he, hp⟩ := ih (cx.push ⟨c, false, guardsInL .loop b⟩) fl1 rv (goodB_push false hg) hinv
  have hb : Eval W (.seq (T.bindItem c :: lowerB (cx.push ⟨c, false, guardsInL .loop b⟩) b)) ⟨s1, fl1, rv⟩ ⟨s2, fl2, rv2⟩ true :=
    Eval.seqCons _ _ _ _ _ _ (Eval.bindItem c ⟨s1, fl1, rv⟩) he
  obtain ⟨bw, hbw⟩ := eval_wrap cx.wrap (eval_seq_append hr hb)
  exact ⟨fl2, rv2, bw, fl1, hbw, h01, hp⟩

/-! ### the else clause of a loop -/

theorem eval_loop_else (cx : Cx) (guard : T) (hbFlag : Bool) (e : List Sk) (s1 s2 : TS σ)
    (hguard : hbFlag = true → Eval W (.expr guard) s1 s1 true)
    (he : Eval W (.seq (lowerB cx e)) s1 s2 true) :
    Eval W (.seq (if e.isEmpty then [] else
      [if hbFlag then T.ifExp guard (wrapT cx.wrap (lowerB cx e)) .ell else wrapT cx.wrap (lowerB cx e)])) s1 s2 true := by
  split
  · rename_i hem
    have : e = [] := by simpa using hem
    subst this
    simp only [lowerB] at he
    cases he
    exact Eval.seqNil _
  · obtain ⟨bw, hbw⟩ := eval_wrap cx.wrap he
    cases hbFlag with
    | true => exact eval_seq_single (Eval.ifTrue _ _ _ _ _ _ _ (hguard rfl) hbw)
    | false => exact eval_seq_single hbw

theorem eval_loop_else_skip (cx : Cx) (guard : T) (e : List Sk) (s1 : TS σ)
    (hguard : Eval W (.expr guard) s1 s1 false) :
    Eval W (.seq (if e.isEmpty then [] else
      [if true then T.ifExp guard (wrapT cx.wrap (lowerB cx e)) .ell else wrapT cx.wrap (lowerB cx e)])) s1 s1 true := by
  split
  · exact Eval.seqNil _
  · exact eval_seq_single (Eval.ifFalse _ _ _ _ _ _ _ hguard (Eval.ell _))

end OlVerif.Ctrl
