/-
  M-CTRL, part 10: the loop cases of the main induction, stated with the induction hypotheses
  as explicit premises.
-/
import OlVerif.Ctrl.Main

set_option linter.unusedSimpArgs false
set_option linter.unusedVariables false

namespace OlVerif.Ctrl

variable {σ : Type} {W : World σ}

theorem loop_fresh {cx : Cx} {c : Nat} {b : List Sk} (hg : GoodLoop cx c b) :
    Flag.brk c ∉ ctxFlags cx ∧ Flag.intr c ∉ ctxFlags cx :=
  fresh_not_mem hg.2.1 (by simp)

/-! ### iterations of `while` -/

theorem case_wExit (c : Nat) (b : List Sk) (s : σ) (hc : (W.cond c s).2 = false) :
    Goal W (.wloop c b) s (W.cond c s).1 .normal := by
  intro cx fl rv hg hbrk
  have ht := eval_whileTest_open (W := W) c b ⟨s, fl, rv⟩ hbrk
  rw [hc] at ht
  exact ⟨fl, rv, false, Eval.wStop _ _ _ _ ht, ⟨fun _ _ => rfl, rfl, rfl⟩⟩

theorem case_wNext (c : Nat) (b : List Sk) (s s1 s2 : σ) (sig sig' : Sig) (hc : (W.cond c s).2 = true)
    (hs : sig = .normal ∨ sig = .cont)
    (ih1 : Goal W (.block b) (W.cond c s).1 s1 sig) (ih2 : Goal W (.wloop c b) s1 s2 sig') :
    Goal W (.wloop c b) s s2 sig' := by
  intro cx fl rv hg hbrk
  have ht := eval_whileTest_open (W := W) c b ⟨s, fl, rv⟩ hbrk
  rw [hc] at ht
  obtain ⟨fl2, rv2, bw, fl1, hbody, h01, hp⟩ := eval_whileBody cx c b _ _ _ fl rv ih1 hg
  obtain ⟨hctx, hbk, hrv⟩ := body_frame (l := ⟨c, true, guardsInL .loop b⟩) (loop_fresh hg) h01 hs hp
  obtain ⟨fl', rv', n, hrest, hpl⟩ := ih2 cx fl2 rv2 hg (fun hb => by rw [hbk]; exact hbrk hb)
  exact ⟨fl', rv', true, Eval.wStep _ _ _ _ _ _ _ _ ht hbody hrest, postLoop_trans hctx hbk hrv hpl⟩

theorem case_wBrk (c : Nat) (b : List Sk) (s s1 : σ) (hc : (W.cond c s).2 = true)
    (hex : Exec W (.block b) (W.cond c s).1 s1 .brk)
    (ih : Goal W (.block b) (W.cond c s).1 s1 .brk) :
    Goal W (.wloop c b) s s1 .brk := by
  intro cx fl rv hg hbrk
  have ht := eval_whileTest_open (W := W) c b ⟨s, fl, rv⟩ hbrk
  rw [hc] at ht
  obtain ⟨fl2, rv2, bw, fl1, hbody, h01, hp⟩ := eval_whileBody cx c b _ _ _ fl rv ih hg
  obtain ⟨l', hl', hb2, hi, ho, hr⟩ := hp
  rw [push_getLast] at hl'
  cases hl'
  have hb : hasBreakL b = true := hasBCL_hasBreakL b (exec_poss hex)
  have hclosed := eval_whileTest_closed (W := W) c b ⟨s1, fl2, rv2⟩ hb hb2
  refine ⟨fl2, rv2, true, Eval.wStep _ _ _ _ _ _ _ _ ht hbody (Eval.wStop _ _ _ _ hclosed), ?_, hb2, hr⟩
  intro f hf
  rw [ho f (by rw [outerFlags_push]; exact hf)]
  exact h01 f (fun e => (loop_fresh hg).2 (e ▸ hf))

theorem case_wRet (c : Nat) (b : List Sk) (s s1 : σ) (v : Option Nat) (hc : (W.cond c s).2 = true)
    (hex : Exec W (.block b) (W.cond c s).1 s1 (.ret v))
    (ih : Goal W (.block b) (W.cond c s).1 s1 (.ret v)) :
    Goal W (.wloop c b) s s1 (.ret v) := by
  intro cx fl rv hg hbrk
  have ht := eval_whileTest_open (W := W) c b ⟨s, fl, rv⟩ hbrk
  rw [hc] at ht
  obtain ⟨fl2, rv2, bw, fl1, hbody, h01, hp⟩ := eval_whileBody cx c b _ _ _ fl rv ih hg
  have hb : hasBreakL b = true := hasRetL_hasBreakL b (exec_poss hex)
  have hb2 : fl2 (.brk c) = true := (hp.1 ⟨c, true, guardsInL .loop b⟩ (by simp)).1
  have hclosed := eval_whileTest_closed (W := W) c b ⟨s1, fl2, rv2⟩ hb hb2
  exact ⟨fl2, rv2, true, Eval.wStep _ _ _ _ _ _ _ _ ht hbody (Eval.wStop _ _ _ _ hclosed), hp⟩

/-! ### iterations of `for` -/

theorem case_fExit (c : Nat) (b : List Sk) (s : σ) (hc : (W.iterNext c s).2 = false) :
    Goal W (.floop c b) s (W.iterNext c s).1 .normal := by
  intro cx fl rv hg hbrk
  exact ⟨fl, rv, false, Eval.fStop c _ _ ⟨s, fl, rv⟩ hbrk hc, ⟨fun _ _ => rfl, rfl, rfl⟩⟩

theorem case_fNext (c : Nat) (b : List Sk) (s s1 s2 : σ) (sig sig' : Sig) (hc : (W.iterNext c s).2 = true)
    (hs : sig = .normal ∨ sig = .cont)
    (ih1 : Goal W (.block b) (W.iterNext c s).1 s1 sig) (ih2 : Goal W (.floop c b) s1 s2 sig') :
    Goal W (.floop c b) s s2 sig' := by
  intro cx fl rv hg hbrk
  obtain ⟨fl2, rv2, bw, fl1, hbody, h01, hp⟩ := eval_forBody cx c b _ _ _ fl rv ih1 hg
  obtain ⟨hctx, hbk, hrv⟩ := body_frame (l := ⟨c, false, guardsInL .loop b⟩) (loop_fresh hg) h01 hs hp
  obtain ⟨fl', rv', n, hrest, hpl⟩ := ih2 cx fl2 rv2 hg (fun hb => by rw [hbk]; exact hbrk hb)
  exact ⟨fl', rv', true, Eval.fStep c _ _ ⟨s, fl, rv⟩ _ _ _ _ hbrk hc hbody hrest, postLoop_trans hctx hbk hrv hpl⟩

theorem case_fBrk (c : Nat) (b : List Sk) (s s1 : σ) (hc : (W.iterNext c s).2 = true)
    (hex : Exec W (.block b) (W.iterNext c s).1 s1 .brk)
    (ih : Goal W (.block b) (W.iterNext c s).1 s1 .brk) :
    Goal W (.floop c b) s s1 .brk := by
  intro cx fl rv hg hbrk
  obtain ⟨fl2, rv2, bw, fl1, hbody, h01, hp⟩ := eval_forBody cx c b _ _ _ fl rv ih hg
  obtain ⟨l', hl', hb2, hi, ho, hr⟩ := hp
  rw [push_getLast] at hl'
  cases hl'
  have hb : hasBreakL b = true := hasBCL_hasBreakL b (exec_poss hex)
  have hbroken : Eval W (.floop c (hasBreakL b) (forBody cx c b)) ⟨s1, fl2, rv2⟩ ⟨s1, fl2, rv2⟩ false := by
    rw [hb]
    exact Eval.fBroken c _ ⟨s1, fl2, rv2⟩ hb2
  refine ⟨fl2, rv2, true, Eval.fStep c _ _ ⟨s, fl, rv⟩ _ _ _ _ hbrk hc hbody hbroken, ?_, hb2, hr⟩
  intro f hf
  rw [ho f (by rw [outerFlags_push]; exact hf)]
  exact h01 f (fun e => (loop_fresh hg).2 (e ▸ hf))

theorem case_fRet (c : Nat) (b : List Sk) (s s1 : σ) (v : Option Nat) (hc : (W.iterNext c s).2 = true)
    (hex : Exec W (.block b) (W.iterNext c s).1 s1 (.ret v))
    (ih : Goal W (.block b) (W.iterNext c s).1 s1 (.ret v)) :
    Goal W (.floop c b) s s1 (.ret v) := by
  intro cx fl rv hg hbrk
  obtain ⟨fl2, rv2, bw, fl1, hbody, h01, hp⟩ := eval_forBody cx c b _ _ _ fl rv ih hg
  have hb : hasBreakL b = true := hasRetL_hasBreakL b (exec_poss hex)
  have hb2 : fl2 (.brk c) = true := (hp.1 ⟨c, false, guardsInL .loop b⟩ (by simp)).1
  have hbroken : Eval W (.floop c (hasBreakL b) (forBody cx c b)) ⟨s1, fl2, rv2⟩ ⟨s1, fl2, rv2⟩ false := by
    rw [hb]
    exact Eval.fBroken c _ ⟨s1, fl2, rv2⟩ hb2
  exact ⟨fl2, rv2, true, Eval.fStep c _ _ ⟨s, fl, rv⟩ _ _ _ _ hbrk hc hbody hbroken, hp⟩

/-! ### the loop statements -/

theorem post_ret_of_push {cx : Cx} {l : LCtx} {v : Option Nat} {fl0 fl fl1 : Flag → Bool} {rv rv1 : Option Nat}
    (hp : Post (cx.push l) (.ret v) fl0 rv fl1 rv1) : Post cx (.ret v) fl rv fl1 rv1 :=
  ⟨fun l' hl' => hp.1 l' (by simp [hl']), hp.2.1, hp.2.2⟩

theorem case_whl (c : Nat) (b e : List Sk) (s s1 s2 : σ) (sigL sig : Sig)
    (ihL : Goal W (.wloop c b) s s1 sigL) (hposs : Poss (.wloop c b) sigL)
    (hrest : (sigL = .normal ∧ Goal W (.block e) s1 s2 sig) ∨ (sigL = .brk ∧ s1 = s2 ∧ sig = .normal) ∨
      (∃ v, sigL = .ret v ∧ s1 = s2 ∧ sig = .ret v)) :
    Goal W (.stmt (.whl c b e)) s s2 sig := by
  intro cx fl rv hg hinv
  obtain ⟨hgl, hge⟩ := good_whl hg
  rw [lowerS_whl]
  have hfresh := loop_fresh hgl
  -- the state after the optional reset of the break flag
  have hpre : ∃ fl0, Eval W (.seq (if hasBreakL b then [T.setFlag (.brk c) false] else [])) ⟨s, fl, rv⟩ ⟨s, fl0, rv⟩ true ∧
      (hasBreakL b = true → fl0 (.brk c) = false) ∧ (∀ f, f ≠ .brk c → fl0 f = fl f) := by
    split
    · exact ⟨setF fl (.brk c) false, eval_seq_single (Eval.setFlag _ _ _), fun _ => setF_same _ _ _,
        fun f hf => setF_other _ _ _ _ hf⟩
    · rename_i h
      exact ⟨fl, Eval.seqNil _, fun hb => absurd hb h, fun _ _ => rfl⟩
  obtain ⟨fl0, hpre, h0brk, h0other⟩ := hpre
  obtain ⟨fl1, rv1, n, hloop, hpl⟩ := ihL cx fl0 rv hgl h0brk
  have hcomp := Eval.whileComp _ _ _ _ _ hloop
  have hhead := eval_seq_append hpre (eval_seq_single hcomp)
  rcases hrest with ⟨rfl, ihE⟩ | ⟨rfl, rfl, rfl⟩ | ⟨v, rfl, rfl, rfl⟩
  · -- ran to exhaustion: the else clause runs
    obtain ⟨hctx, hbk, hrv⟩ := hpl
    have hctx0 : ∀ f ∈ ctxFlags cx, fl1 f = fl f :=
      fun f hf => (hctx f hf).trans (h0other f (fun e => hfresh.1 (e ▸ hf)))
    have hinv1 : Inv cx fl1 := fun hu => by rw [hctx0 _ (flowFlag_mem cx)]; exact hinv hu
    obtain ⟨fl', rv', he, hp⟩ := ihE cx fl1 rv1 hge hinv1
    refine ⟨fl', rv', ?_, post_trans_normal hctx0 hrv hp⟩
    have hguard : hasBreakL b = true → Eval W (.expr (.readNot (.brk c))) ⟨s1, fl1, rv1⟩ ⟨s1, fl1, rv1⟩ true := by
      intro hb
      have := Eval.readNot (W := W) (.brk c) ⟨s1, fl1, rv1⟩
      have hf : fl1 (.brk c) = false := hbk.trans (h0brk hb)
      simp only [hf, Bool.not_false] at this
      exact this
    exact eval_seq_append hhead (eval_loop_else cx _ _ e _ _ hguard he)
  · -- left by break: the else clause is skipped
    obtain ⟨hctx, hbk, hrv⟩ := hpl
    have hb : hasBreakL b = true := hasBCL_hasBreakL b hposs
    refine ⟨fl1, rv1, ?_, ⟨fun f hf => (hctx f hf).trans (h0other f (fun e => hfresh.1 (e ▸ hf))), hrv⟩⟩
    have hguard : Eval W (.expr (.readNot (.brk c))) ⟨s1, fl1, rv1⟩ ⟨s1, fl1, rv1⟩ false := by
      have := Eval.readNot (W := W) (.brk c) ⟨s1, fl1, rv1⟩
      simp only [hbk, Bool.not_true] at this
      exact this
    have hskip := eval_loop_else_skip cx _ e _ hguard
    simp only [hb] at hhead ⊢
    exact eval_seq_append hhead hskip
  · -- left by return
    have hb : hasBreakL b = true := hasRetL_hasBreakL b hposs
    have hbk : fl1 (.brk c) = true := (hpl.1 ⟨c, true, guardsInL .loop b⟩ (by simp)).1
    refine ⟨fl1, rv1, ?_, post_ret_of_push (fl0 := fl0) hpl⟩
    have hguard : Eval W (.expr (.readNot (.brk c))) ⟨s1, fl1, rv1⟩ ⟨s1, fl1, rv1⟩ false := by
      have := Eval.readNot (W := W) (.brk c) ⟨s1, fl1, rv1⟩
      simp only [hbk, Bool.not_true] at this
      exact this
    have hskip := eval_loop_else_skip cx _ e _ hguard
    simp only [hb] at hhead ⊢
    exact eval_seq_append hhead hskip

theorem case_for (c : Nat) (b e : List Sk) (s s1 s2 : σ) (sigL sig : Sig)
    (ihL : Goal W (.floop c b) (W.iterOpen c s) s1 sigL) (hposs : Poss (.floop c b) sigL)
    (hrest : (sigL = .normal ∧ Goal W (.block e) s1 s2 sig) ∨ (sigL = .brk ∧ s1 = s2 ∧ sig = .normal) ∨
      (∃ v, sigL = .ret v ∧ s1 = s2 ∧ sig = .ret v)) :
    Goal W (.stmt (.for_ c b e)) s s2 sig := by
  intro cx fl rv hg hinv
  obtain ⟨hgl, hge⟩ := good_for hg
  rw [lowerS_for]
  have hfresh := loop_fresh hgl
  -- the state in which the iterations start, and the evaluation of the (optional) wrapper creation + comprehension head
  have hhead : ∃ fl0, (hasBreakL b = true → fl0 (.brk c) = false) ∧ (∀ f, f ≠ .brk c → fl0 f = fl f) ∧
      ∀ fl1 rv1 n, Eval W (.floop c (hasBreakL b) (forBody cx c b)) ⟨W.iterOpen c s, fl0, rv⟩ ⟨s1, fl1, rv1⟩ n →
        Eval W (.seq ((if hasBreakL b then [T.openWrapped c] else []) ++ [.forComp c (hasBreakL b) (forBody cx c b)]))
          ⟨s, fl, rv⟩ ⟨s1, fl1, rv1⟩ true := by
    cases hb : hasBreakL b with
    | true =>
      refine ⟨setF fl (.brk c) false, fun _ => setF_same _ _ _, fun f hf => setF_other _ _ _ _ hf, ?_⟩
      intro fl1 rv1 n hloop
      simp only [↓reduceIte]
      exact eval_seq_append (eval_seq_single (Eval.openWrapped c ⟨s, fl, rv⟩))
        (eval_seq_single (Eval.forWrapped c _ _ _ _ hloop))
    | false =>
      refine ⟨fl, (fun h => by cases h), (fun _ _ => rfl), ?_⟩
      intro fl1 rv1 n hloop
      simp only [Bool.false_eq_true, ↓reduceIte, List.nil_append]
      exact eval_seq_single (Eval.forPlain c _ ⟨s, fl, rv⟩ _ _ hloop)
  obtain ⟨fl0, h0brk, h0other, hmk⟩ := hhead
  obtain ⟨fl1, rv1, n, hloop, hpl⟩ := ihL cx fl0 rv hgl h0brk
  have hhead := hmk fl1 rv1 n hloop
  rcases hrest with ⟨rfl, ihE⟩ | ⟨rfl, rfl, rfl⟩ | ⟨v, rfl, rfl, rfl⟩
  · obtain ⟨hctx, hbk, hrv⟩ := hpl
    have hctx0 : ∀ f ∈ ctxFlags cx, fl1 f = fl f :=
      fun f hf => (hctx f hf).trans (h0other f (fun e => hfresh.1 (e ▸ hf)))
    have hinv1 : Inv cx fl1 := fun hu => by rw [hctx0 _ (flowFlag_mem cx)]; exact hinv hu
    obtain ⟨fl', rv', he, hp⟩ := ihE cx fl1 rv1 hge hinv1
    refine ⟨fl', rv', ?_, post_trans_normal hctx0 hrv hp⟩
    have hguard : hasBreakL b = true → Eval W (.expr (.readNotBreakAttr c)) ⟨s1, fl1, rv1⟩ ⟨s1, fl1, rv1⟩ true := by
      intro hb
      have := Eval.readNotBreakAttr (W := W) c ⟨s1, fl1, rv1⟩
      have hf : fl1 (.brk c) = false := hbk.trans (h0brk hb)
      simp only [hf, Bool.not_false] at this
      exact this
    exact eval_seq_append hhead (eval_loop_else cx _ _ e _ _ hguard he)
  · obtain ⟨hctx, hbk, hrv⟩ := hpl
    have hb : hasBreakL b = true := hasBCL_hasBreakL b hposs
    refine ⟨fl1, rv1, ?_, ⟨fun f hf => (hctx f hf).trans (h0other f (fun e => hfresh.1 (e ▸ hf))), hrv⟩⟩
    have hguard : Eval W (.expr (.readNotBreakAttr c)) ⟨s1, fl1, rv1⟩ ⟨s1, fl1, rv1⟩ false := by
      have := Eval.readNotBreakAttr (W := W) c ⟨s1, fl1, rv1⟩
      simp only [hbk, Bool.not_true] at this
      exact this
    have hskip := eval_loop_else_skip cx _ e _ hguard
    simp only [hb] at hhead ⊢
    exact eval_seq_append hhead hskip
  · have hb : hasBreakL b = true := hasRetL_hasBreakL b hposs
    have hbk : fl1 (.brk c) = true := (hpl.1 ⟨c, false, guardsInL .loop b⟩ (by simp)).1
    refine ⟨fl1, rv1, ?_, post_ret_of_push (fl0 := fl0) hpl⟩
    have hguard : Eval W (.expr (.readNotBreakAttr c)) ⟨s1, fl1, rv1⟩ ⟨s1, fl1, rv1⟩ false := by
      have := Eval.readNotBreakAttr (W := W) c ⟨s1, fl1, rv1⟩
      simp only [hbk, Bool.not_true] at this
      exact this
    have hskip := eval_loop_else_skip cx _ e _ hguard
    simp only [hb] at hhead ⊢
    exact eval_seq_append hhead hskip

end OlVerif.Ctrl
