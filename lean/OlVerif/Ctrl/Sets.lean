/-
  M-CTRL, part 6: evaluation of the flag-setting lists emitted for break / continue / return.
-/
import OlVerif.Ctrl.Inv

set_option linter.unusedSimpArgs false

namespace OlVerif.Ctrl

variable {σ : Type} {W : World σ}

/-- `t` sets flag `f` to true and does nothing else -/
inductive SetsTrue : T → Flag → Prop
  | flag (f : Flag) : SetsTrue (.setFlag f true) f
  | attr (c : Nat) : SetsTrue (.setBreakAttr c) (.brk c)

theorem eval_setsTrue {t : T} {f : Flag} (h : SetsTrue t f) (s : TS σ) :
    ∃ b, Eval W (.expr t) s { s with fl := setF s.fl f true } b := by
  cases h with
  | flag f => exact ⟨_, Eval.setFlag f true s⟩
  | attr c => exact ⟨_, Eval.setBreakAttr c s⟩

/-- pointwise `SetsTrue` -/
inductive AllSets : List T → List Flag → Prop
  | nil : AllSets [] []
  | cons {t f ts fs} : SetsTrue t f → AllSets ts fs → AllSets (t :: ts) (f :: fs)

theorem eval_setsTrue_list {ts : List T} {fs : List Flag} (h : AllSets ts fs) (s : TS σ) :
    ∃ fl', Eval W (.seq ts) s { s with fl := fl' } true ∧ (∀ f ∈ fs, fl' f = true) ∧
      (∀ g, g ∉ fs → fl' g = s.fl g) := by
  induction h generalizing s with
  | nil => exact ⟨s.fl, Eval.seqNil _, by simp, by simp⟩
  | @cons t f ts' fs' hd _ ih =>
    obtain ⟨b, hb⟩ := eval_setsTrue (W := W) hd s
    obtain ⟨fl', he, h1, h2⟩ := ih { s with fl := setF s.fl f true }
    refine ⟨fl', Eval.seqCons _ _ _ _ _ _ hb he, ?_, ?_⟩
    · intro g hg
      simp only [List.mem_cons] at hg
      by_cases hgf : g ∈ fs'
      · exact h1 g hgf
      · rcases hg with rfl | hg
        · rw [h2 g hgf]; simp [setF]
        · exact absurd hg hgf
    · intro g hg
      simp only [List.mem_cons, not_or] at hg
      rw [h2 g hg.2]
      simp [setF, hg.1]

theorem brkSet_setsTrue (l : LCtx) : SetsTrue l.brkSet (.brk l.id) := by
  unfold LCtx.brkSet
  split
  · exact SetsTrue.flag _
  · exact SetsTrue.attr _

theorem brkSets_forall (ls : List LCtx) :
    AllSets (ls.map LCtx.brkSet) (ls.map fun l => Flag.brk l.id) := by
  induction ls with
  | nil => exact AllSets.nil
  | cons l ls ih => exact AllSets.cons (brkSet_setsTrue l) ih

theorem intrSets_forall (ls : List LCtx) :
    AllSets (intrSets ls) ((ls.filter (·.used)).map fun l => Flag.intr l.id) := by
  unfold intrSets
  induction (ls.filter (·.used)) with
  | nil => exact AllSets.nil
  | cons l ls ih => exact AllSets.cons (SetsTrue.flag _) ih

theorem allSets_append {a1 a2 : List T} {b1 b2 : List Flag}
    (h1 : AllSets a1 b1) (h2 : AllSets a2 b2) : AllSets (a1 ++ a2) (b1 ++ b2) := by
  induction h1 with
  | nil => simpa using h2
  | cons h _ ih => exact AllSets.cons h ih

end OlVerif.Ctrl
