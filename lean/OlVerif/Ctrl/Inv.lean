/-
  M-CTRL, part 5: the invariant of the control-flow lowering (vocabulary and basic lemmas).
-/
import OlVerif.Ctrl.Lemmas

set_option linter.unusedSimpArgs false

namespace OlVerif.Ctrl

/-! ### well-formedness of skeletons -/

mutual
  /-- ids of the loops inside a statement -/
  def loopIds : Sk → List Nat
    | .ite _ t e => loopIdsL t ++ loopIdsL e
    | .whl c b e => c :: (loopIdsL b ++ loopIdsL e)
    | .for_ c b e => c :: (loopIdsL b ++ loopIdsL e)
    | _ => []
  def loopIdsL : List Sk → List Nat
    | [] => []
    | s :: ss => loopIds s ++ loopIdsL ss
end

mutual
  /-- a loop's id differs from the ids of the loops nested in its body; `break` / `continue`
      occur only inside loops (`inLoop`), `return` only inside a function (`inFn`) -/
  def wf (inLoop inFn : Bool) : Sk → Bool
    | .brk | .cont => inLoop
    | .ret _ => inFn
    | .ite _ t e => wfL inLoop inFn t && wfL inLoop inFn e
    | .whl c b e => !(loopIdsL b).contains c && wfL true inFn b && wfL inLoop inFn e
    | .for_ c b e => !(loopIdsL b).contains c && wfL true inFn b && wfL inLoop inFn e
    | _ => true
  def wfL (inLoop inFn : Bool) : List Sk → Bool
    | [] => true
    | s :: ss => wf inLoop inFn s && wfL inLoop inFn ss
end

/-! ### flags of a context -/

def loopFlags (ls : List LCtx) : List Flag := ls.flatMap fun l => [Flag.brk l.id, Flag.intr l.id]

/-- the flags that belong to the enclosing loops and the enclosing function -/
def ctxFlags (cx : Cx) : List Flag := loopFlags cx.loops ++ [Flag.ret]

/-- the same without the innermost loop -/
def outerFlags (cx : Cx) : List Flag := loopFlags cx.loops.dropLast ++ [Flag.ret]

/-- the `used` flag of the owner of this block's flow-control flag -/
def ownerUsed (cx : Cx) : Bool :=
  match cx.loops.getLast? with
  | some l => l.used
  | none => cx.fnUsed

/-- no loop inside the item reuses the id of an enclosing loop -/
def Fresh (cx : Cx) (ids : List Nat) : Prop := ∀ c ∈ ids, ∀ l ∈ cx.loops, l.id ≠ c

/-- **Entry invariant** of a block: if its flow-control flag is ever read, it is currently false -/
def Inv (cx : Cx) (fl : Flag → Bool) : Prop := ownerUsed cx = true → fl cx.flowFlag = false

/-- **Exit condition** of a statement / block, by signal -/
def Post (cx : Cx) (sig : Sig) (fl : Flag → Bool) (rv : Option Nat) (fl' : Flag → Bool) (rv' : Option Nat) : Prop :=
  match sig with
  | .normal => (∀ f ∈ ctxFlags cx, fl' f = fl f) ∧ rv' = rv
  | .brk => ∃ l, cx.loops.getLast? = some l ∧ fl' (.brk l.id) = true ∧ (l.used = true → fl' (.intr l.id) = true) ∧
      (∀ f ∈ outerFlags cx, fl' f = fl f) ∧ rv' = rv
  | .cont => ∃ l, cx.loops.getLast? = some l ∧ fl' (.brk l.id) = fl (.brk l.id) ∧
      (l.used = true → fl' (.intr l.id) = true) ∧ (∀ f ∈ outerFlags cx, fl' f = fl f) ∧ rv' = rv
  | .ret v => (∀ l ∈ cx.loops, fl' (.brk l.id) = true ∧ (l.used = true → fl' (.intr l.id) = true)) ∧
      (cx.fnUsed = true → fl' .ret = true) ∧ rv' = (match v with | some x => some x | none => rv)

/-- exit condition of the iterations of loop `l` seen from the context outside the loop -/
def PostLoop (cx : Cx) (l : LCtx) (sig : Sig) (fl : Flag → Bool) (rv : Option Nat) (fl' : Flag → Bool)
    (rv' : Option Nat) : Prop :=
  match sig with
  | .normal => (∀ f ∈ ctxFlags cx, fl' f = fl f) ∧ fl' (.brk l.id) = fl (.brk l.id) ∧ rv' = rv
  | .brk => (∀ f ∈ ctxFlags cx, fl' f = fl f) ∧ fl' (.brk l.id) = true ∧ rv' = rv
  | .cont => False
  | .ret v => Post (cx.push l) (.ret v) fl rv fl' rv'

/-! ### basic facts -/

@[simp] theorem push_loops (cx : Cx) (l : LCtx) : (cx.push l).loops = cx.loops ++ [l] := rfl
@[simp] theorem push_wrap (cx : Cx) (l : LCtx) : (cx.push l).wrap = cx.wrap := rfl
@[simp] theorem push_style (cx : Cx) (l : LCtx) : (cx.push l).style = cx.style := rfl
@[simp] theorem push_fnUsed (cx : Cx) (l : LCtx) : (cx.push l).fnUsed = cx.fnUsed := rfl

theorem push_getLast (cx : Cx) (l : LCtx) : (cx.push l).loops.getLast? = some l := by simp

theorem push_fk (cx : Cx) (l : LCtx) : (cx.push l).fk = .loop := by simp [Cx.fk]

theorem push_flowFlag (cx : Cx) (l : LCtx) : (cx.push l).flowFlag = .intr l.id := by
  simp [Cx.flowFlag]

theorem push_ownerUsed (cx : Cx) (l : LCtx) : ownerUsed (cx.push l) = l.used := by
  simp [ownerUsed]

theorem outerFlags_push (cx : Cx) (l : LCtx) : outerFlags (cx.push l) = ctxFlags cx := by
  simp [outerFlags, ctxFlags]

theorem ctxFlags_push (cx : Cx) (l : LCtx) :
    ctxFlags (cx.push l) = loopFlags cx.loops ++ [Flag.brk l.id, Flag.intr l.id] ++ [Flag.ret] := by
  simp [ctxFlags, loopFlags]

theorem mem_ctxFlags_push {cx : Cx} {l : LCtx} {f : Flag} (h : f ∈ ctxFlags cx) : f ∈ ctxFlags (cx.push l) := by
  simp only [ctxFlags, List.mem_append, List.mem_singleton] at h
  rw [ctxFlags_push]
  simp only [List.mem_append, List.mem_cons, List.mem_singleton]
  rcases h with h | h
  · exact Or.inl (Or.inl h)
  · exact Or.inr (Or.inl h)

theorem flowFlag_mem (cx : Cx) : cx.flowFlag ∈ ctxFlags cx := by
  unfold Cx.flowFlag ctxFlags loopFlags
  cases h : cx.loops.getLast? with
  | none => simp
  | some l =>
    have hm : l ∈ cx.loops := List.mem_of_getLast? h
    simp only [List.mem_append, List.mem_flatMap, List.mem_cons, List.mem_singleton]
    exact Or.inl ⟨l, hm, Or.inr (Or.inl rfl)⟩

theorem brk_mem_ctxFlags {cx : Cx} {l : LCtx} (h : l ∈ cx.loops) : Flag.brk l.id ∈ ctxFlags cx := by
  simp only [ctxFlags, loopFlags, List.mem_append, List.mem_flatMap, List.mem_cons, List.mem_singleton]
  exact Or.inl ⟨l, h, Or.inl rfl⟩

theorem intr_mem_ctxFlags {cx : Cx} {l : LCtx} (h : l ∈ cx.loops) : Flag.intr l.id ∈ ctxFlags cx := by
  simp only [ctxFlags, loopFlags, List.mem_append, List.mem_flatMap, List.mem_cons, List.mem_singleton]
  exact Or.inl ⟨l, h, Or.inr (Or.inl rfl)⟩

/-- a flag of the context is either a flag of the innermost loop or an outer flag -/
theorem ctxFlags_cases {cx : Cx} {l : LCtx} (hl : cx.loops.getLast? = some l) {f : Flag} (h : f ∈ ctxFlags cx) :
    f = .brk l.id ∨ f = .intr l.id ∨ f ∈ outerFlags cx := by
  have hsplit : cx.loops = cx.loops.dropLast ++ [l] := by
    have hne : cx.loops ≠ [] := by
      intro h0; rw [h0] at hl; simp at hl
    have h1 := List.dropLast_concat_getLast hne
    have h2 : cx.loops.getLast hne = l := by
      have := List.getLast?_eq_some_getLast hne
      rw [hl] at this
      exact (Option.some.inj this).symm
    rw [h2] at h1
    exact h1.symm
  unfold ctxFlags at h
  rw [hsplit] at h
  simp only [loopFlags, List.flatMap_append, List.flatMap_cons, List.flatMap_nil, List.append_nil, List.mem_append,
    List.mem_cons, List.mem_singleton, List.not_mem_nil, or_false] at h
  unfold outerFlags loopFlags
  simp only [List.mem_append, List.mem_singleton]
  rcases h with (h | h | h) | h
  · exact Or.inr (Or.inr (Or.inl h))
  · exact Or.inl h
  · exact Or.inr (Or.inl h)
  · exact Or.inr (Or.inr (Or.inr h))

theorem mem_of_mem_dropLast {α} {a : α} : ∀ {l : List α}, a ∈ l.dropLast → a ∈ l
  | [], h => by simp at h
  | [x], h => by simp at h
  | x :: y :: zs, h => by
    rw [List.dropLast_cons_cons] at h
    simp only [List.mem_cons] at h ⊢
    rcases h with h | h
    · exact Or.inl h
    · exact Or.inr (List.mem_cons.mp (mem_of_mem_dropLast (l := y :: zs) h))

theorem setF_same (fl : Flag → Bool) (f : Flag) (v : Bool) : setF fl f v f = v := by simp [setF]
theorem setF_other (fl : Flag → Bool) (f g : Flag) (v : Bool) (h : g ≠ f) : setF fl f v g = fl g := by
  simp [setF, h]

end OlVerif.Ctrl
