/-
  M-CTRL, part 10: `lower_correct_item` - by induction on the source execution.
-/
import OlVerif.Ctrl.Loops

set_option linter.unusedSimpArgs false
set_option linter.unusedVariables false

namespace OlVerif.Ctrl

variable {σ : Type} {W : World σ}

theorem lower_correct_item {item : Item} {s s' : σ} {sig : Sig} (h : Exec W item s s' sig) :
    Goal W item s s' sig := by
  induction h with
  | atom i s =>
    intro cx fl rv _ _
    exact ⟨fl, rv, by simpa [lowerS] using eval_seq_single (Eval.atom i ⟨s, fl, rv⟩), post_normal_refl _ _ _⟩
  | pass s =>
    intro cx fl rv _ _
    exact ⟨fl, rv, by simpa [lowerS] using eval_seq_single (Eval.ell (W := W) ⟨s, fl, rv⟩), post_normal_refl _ _ _⟩
  | brk s =>
    intro cx fl rv hg _
    have hne : cx.loops.isEmpty = false := by simpa [wf] using hg.1
    cases hl : cx.loops.getLast? with
    | none =>
      cases hc : cx.loops with
      | nil => rw [hc] at hne; simp at hne
      | cons a as => rw [hc] at hl; simp at hl
    | some l =>
      have hall : AllSets (l.brkSet :: intrSets [l]) (Flag.brk l.id :: ([l].filter (·.used)).map fun l => Flag.intr l.id) :=
        AllSets.cons (brkSet_setsTrue l) (intrSets_forall [l])
      obtain ⟨fl', he, h1, h2⟩ := eval_setsTrue_list (W := W) hall ⟨s, fl, rv⟩
      refine ⟨fl', rv, ?_, ?_⟩
      · simp only [lowerS, hl]
        exact eval_seq_single (Eval.seqList _ _ _ he)
      · refine ⟨l, hl, h1 _ (by simp), ?_, ?_, rfl⟩
        · intro hu
          apply h1
          simp [hu]
        · intro f hf
          apply h2
          obtain ⟨n1, n2⟩ := outer_ne_inner hg.2.2.2 hl hf
          intro hmem
          simp only [List.mem_cons, List.mem_map, List.mem_filter, List.mem_singleton] at hmem
          rcases hmem with hmem | ⟨l', ⟨hl', _⟩, hmem⟩
          · exact n1 hmem
          · have : l' = l := by simpa using hl'
            subst this
            exact n2 hmem.symm
  | cont s =>
    intro cx fl rv hg _
    have hne : cx.loops.isEmpty = false := by simpa [wf] using hg.1
    cases hl : cx.loops.getLast? with
    | none =>
      cases hc : cx.loops with
      | nil => rw [hc] at hne; simp at hne
      | cons a as => rw [hc] at hl; simp at hl
    | some l =>
      obtain ⟨fl', he, h1, h2⟩ := eval_setsTrue_list (W := W) (intrSets_forall [l]) ⟨s, fl, rv⟩
      refine ⟨fl', rv, ?_, ?_⟩
      · simp only [lowerS, hl]
        exact eval_seq_single (Eval.seqList _ _ _ he)
      · refine ⟨l, hl, ?_, ?_, ?_, rfl⟩
        · apply h2
          simp
        · intro hu
          apply h1
          simp [hu]
        · intro f hf
          apply h2
          obtain ⟨n1, n2⟩ := outer_ne_inner hg.2.2.2 hl hf
          intro hmem
          simp only [List.mem_map, List.mem_filter, List.mem_singleton] at hmem
          obtain ⟨l', ⟨hl', _⟩, hmem⟩ := hmem
          have : l' = l := by simpa using hl'
          subst this
          exact n2 hmem.symm
  | retNone s =>
    intro cx fl rv _ _
    obtain ⟨fl', he, h1, h2⟩ := eval_ret_sets (W := W) cx ⟨s, fl, rv⟩
    refine ⟨fl', rv, ?_, h1, h2, rfl⟩
    simp only [lowerS, List.nil_append, List.append_assoc]
    exact eval_seq_single (Eval.seqList _ _ _ he)
  | retSome i s =>
    intro cx fl rv _ _
    obtain ⟨fl', he, h1, h2⟩ := eval_ret_sets (W := W) cx ⟨(W.retv i s).1, fl, some (W.retv i s).2.1⟩
    refine ⟨fl', some (W.retv i s).2.1, ?_, h1, h2, rfl⟩
    simp only [lowerS, List.cons_append, List.nil_append, List.append_assoc]
    exact eval_seq_single (Eval.seqList _ _ _ (Eval.seqCons _ _ _ _ _ _ (Eval.setRetv i ⟨s, fl, rv⟩) he))
  | iteTrue c t e s s' sig hc _ ih =>
    intro cx fl rv hg hinv
    obtain ⟨fl', rv', he, hp⟩ := ih cx fl rv (goodB_ite_t hg) hinv
    exact ⟨fl', rv', eval_ite_true cx c t e ⟨s, fl, rv⟩ _ hc he, hp⟩
  | iteFalse c t e s s' sig hc _ ih =>
    intro cx fl rv hg hinv
    obtain ⟨fl', rv', he, hp⟩ := ih cx fl rv (goodB_ite_e hg) hinv
    exact ⟨fl', rv', eval_ite_false cx c t e ⟨s, fl, rv⟩ _ hc he, hp⟩
  | nil s =>
    intro cx fl rv _ _
    exact ⟨fl, rv, by simpa [lowerB] using Eval.seqNil (W := W) ⟨s, fl, rv⟩, post_normal_refl _ _ _⟩
  | consNormal x xs s s1 s2 sig h1 h2 ih1 ih2 =>
    intro cx fl rv hg hinv
    have hd : x.isDirect = false := by
      cases hx : x.isDirect
      · rfl
      · exact absurd rfl (direct_not_normal h1 hx)
    obtain ⟨fl1, rv1, he1, hp1⟩ := ih1 cx fl rv (goodS_of_cons hg) hinv
    obtain ⟨ha, hr⟩ := hp1
    have hinv1 : Inv cx fl1 := by
      intro hu
      rw [ha _ (flowFlag_mem cx)]
      exact hinv hu
    obtain ⟨fl', rv', he2, hp2⟩ := ih2 cx fl1 rv1 (goodB_of_cons hg hd) hinv1
    have hp : Post cx sig fl rv fl' rv' := post_trans_normal ha hr hp2
    refine ⟨fl', rv', ?_, hp⟩
    simp only [lowerB, hd, Bool.false_or]
    cases hxs : xs.isEmpty
    · simp only [Bool.false_eq_true, ↓reduceIte]
      split
      · rename_i hmi
        -- a guard: the flag is false, the rest runs
        have hu : ownerUsed cx = true := by
          apply hg.2.2.1
          simp [guardsInL, hd, hmi, hxs]
        have hflag : fl1 cx.flowFlag = false := hinv1 hu
        obtain ⟨bw, hbw⟩ := eval_wrap cx.wrap he2
        have hread : Eval W (.expr (.readNot cx.flowFlag)) ⟨s1, fl1, rv1⟩ ⟨s1, fl1, rv1⟩ true := by
          have := Eval.readNot (W := W) cx.flowFlag ⟨s1, fl1, rv1⟩
          simp only [hflag, Bool.not_false] at this
          exact this
        exact eval_seq_append he1 (eval_seq_single (Eval.ifTrue _ _ _ _ _ _ _ hread hbw))
      · exact eval_seq_append he1 he2
    · have : xs = [] := by simpa using hxs
      subst this
      cases h2
      simp only [lowerB] at he2
      cases he2
      simpa using he1
  | consStop x xs s s1 sig h1 hne ih =>
    intro cx fl rv hg hinv
    obtain ⟨fl', rv', he, hp⟩ := ih cx fl rv (goodS_of_cons hg) hinv
    refine ⟨fl', rv', ?_, hp⟩
    simp only [lowerB]
    split
    · exact he
    · rename_i hcond
      simp only [Bool.or_eq_true, not_or, Bool.not_eq_true] at hcond
      have hmi : mayInt cx.fk x = true := stop_mayInt h1 hne (goodS_of_cons hg) hp
      simp only [hmi, ↓reduceIte]
      have hu : ownerUsed cx = true := by
        apply hg.2.2.1
        simp [guardsInL, hcond.1, hmi, hcond.2]
      have hflag : fl' cx.flowFlag = true := post_flow_true hne hp hu
      have hread : Eval W (.expr (.readNot cx.flowFlag)) ⟨s1, fl', rv'⟩ ⟨s1, fl', rv'⟩ false := by
        have := Eval.readNot (W := W) cx.flowFlag ⟨s1, fl', rv'⟩
        simp only [hflag, Bool.not_true] at this
        exact this
      exact eval_seq_append he (eval_seq_single (Eval.ifFalse _ _ _ _ _ _ _ hread (Eval.ell _)))
  | whlDone c b e s s1 s2 sig hl _ ih1 ih2 =>
    exact case_whl c b e s s1 s2 .normal sig ih1 (exec_poss hl) (Or.inl ⟨rfl, ih2⟩)
  | whlBrk c b e s s1 hl ih =>
    exact case_whl c b e s s1 s1 .brk .normal ih (exec_poss hl) (Or.inr (Or.inl ⟨rfl, rfl, rfl⟩))
  | whlRet c b e s s1 v hl ih =>
    exact case_whl c b e s s1 s1 (.ret v) (.ret v) ih (exec_poss hl) (Or.inr (Or.inr ⟨v, rfl, rfl, rfl⟩))
  | forDone c b e s s1 s2 sig hl _ ih1 ih2 =>
    exact case_for c b e s s1 s2 .normal sig ih1 (exec_poss hl) (Or.inl ⟨rfl, ih2⟩)
  | forBrk c b e s s1 hl ih =>
    exact case_for c b e s s1 s1 .brk .normal ih (exec_poss hl) (Or.inr (Or.inl ⟨rfl, rfl, rfl⟩))
  | forRet c b e s s1 v hl ih =>
    exact case_for c b e s s1 s1 (.ret v) (.ret v) ih (exec_poss hl) (Or.inr (Or.inr ⟨v, rfl, rfl, rfl⟩))
  | wExit c b s hc => exact case_wExit c b s hc
  | wNext c b s s1 s2 sig sig' hc _ hs _ ih1 ih2 => exact case_wNext c b s s1 s2 sig sig' hc hs ih1 ih2
  | wBrk c b s s1 hc hex ih => exact case_wBrk c b s s1 hc hex ih
  | wRet c b s s1 v hc hex ih => exact case_wRet c b s s1 v hc hex ih
  | fExit c b s hc => exact case_fExit c b s hc
  | fNext c b s s1 s2 sig sig' hc _ hs _ ih1 ih2 => exact case_fNext c b s s1 s2 sig sig' hc hs ih1 ih2
  | fBrk c b s s1 hc hex ih => exact case_fBrk c b s s1 hc hex ih
  | fRet c b s s1 v hc hex ih => exact case_fRet c b s s1 v hc hex ih

/-! ### top-level statements -/

mutual
  theorem guardsInS_none (x : Sk) : guardsInS .none x = false := by
    cases x with
    | ite c t e => simp [guardsInS, guardsInL_none t, guardsInL_none e]
    | whl c b e => simp [guardsInS, guardsInL_none e]
    | for_ c b e => simp [guardsInS, guardsInL_none e]
    | atom i => rfl
    | pass => rfl
    | brk => rfl
    | cont => rfl
    | ret v => rfl
  theorem guardsInL_none (b : List Sk) : guardsInL .none b = false := by
    cases b with
    | nil => rfl
    | cons s ss => simp [guardsInL, mayInt, guardsInS_none s, guardsInL_none ss]
end

/-- a module-level (or class-body) skeleton: `break` / `continue` only inside loops, no `return`,
    every loop's id different from the ids of the loops nested in it -/
def WfModule (p : List Sk) : Prop := wfL false false p = true

/-- a function body: the same, `return` allowed -/
def WfFunction (p : List Sk) : Prop := wfL false true p = true

theorem good_module (style : IfStyle) (wrap : Wrapper) (p : List Sk) (h : WfModule p) :
    GoodB { style := style, wrap := wrap } p := by
  refine ⟨by simpa [WfModule] using h, fun _ _ _ hl => by simp at hl, ?_, List.Pairwise.nil⟩
  intro hg
  have : ({ style := style, wrap := wrap } : Cx).fk = .none := by simp [Cx.fk]
  rw [this, guardsInL_none] at hg
  cases hg

theorem good_function (style : IfStyle) (wrap : Wrapper) (p : List Sk) (h : WfFunction p) :
    GoodB { style := style, wrap := wrap, loops := [], inFn := true, fnUsed := guardsInL .function p } p := by
  refine ⟨by simpa [WfFunction] using h, fun _ _ _ hl => by simp at hl, ?_, List.Pairwise.nil⟩
  intro hg
  simpa [ownerUsed, Cx.fk] using hg

/-- **Module / class-body placement.**  Every terminating execution of the source block is
    matched by an evaluation of the lowered code that ends in the same user state - for every
    world (every interpretation of the atoms, conditions, iterables), both wrappers, both
    if-styles, and whatever the flags and the return cell held before. -/
theorem lower_correct_module (style : IfStyle) (wrap : Wrapper) (p : List Sk) (hwf : WfModule p)
    {s s' : σ} {sig : Sig} (h : Exec W (.block p) s s' sig) (fl : Flag → Bool) (rv : Option Nat) :
    sig = .normal ∧ ∃ fl' rv', Eval W (.seq (lowerModule style wrap p)) ⟨s, fl, rv⟩ ⟨s', fl', rv'⟩ true := by
  have hinv : Inv ({ style := style, wrap := wrap } : Cx) fl := by
    intro hu; simp [ownerUsed] at hu
  obtain ⟨fl', rv', he, hp⟩ := lower_correct_item h _ fl rv (good_module style wrap p hwf) hinv
  refine ⟨?_, fl', rv', he⟩
  cases sig with
  | normal => rfl
  | brk => obtain ⟨l, hl, _⟩ := hp; simp at hl
  | cont => obtain ⟨l, hl, _⟩ := hp; simp at hl
  | ret v =>
    have := exec_poss h
    simp only [Poss] at this
    rw [wfL_noFn_noRet false p hwf] at this
    cases this

/-- **Function placement.**  The lowered body (with the reset of the return flag when it is
    used) evaluates to the same user state, and the return cell ends holding the value of the
    `return` that was taken (the initial `None` when none was). -/
theorem lower_correct_function (style : IfStyle) (wrap : Wrapper) (p : List Sk) (hwf : WfFunction p)
    {s s' : σ} {sig : Sig} (h : Exec W (.block p) s s' sig) (fl : Flag → Bool) :
    ∃ fl' rv', Eval W (.seq (lowerFn style wrap p)) ⟨s, fl, none⟩ ⟨s', fl', rv'⟩ true ∧
      rv' = (match sig with | .ret (some v) => some v | _ => none) ∧ (sig = .normal ∨ ∃ v, sig = .ret v) := by
  unfold lowerFn
  -- the optional reset
  have hpre : ∃ fl0, Eval W (.seq (if guardsInL .function p then [T.setFlag .ret false] else [])) ⟨s, fl, none⟩ ⟨s, fl0, none⟩ true ∧
      (guardsInL .function p = true → fl0 .ret = false) := by
    split
    · exact ⟨setF fl .ret false, eval_seq_single (Eval.setFlag _ _ _), fun _ => setF_same _ _ _⟩
    · rename_i hn
      exact ⟨fl, Eval.seqNil _, fun hg => absurd hg hn⟩
  obtain ⟨fl0, hpre, h0⟩ := hpre
  have hinv : Inv ({ style := style, wrap := wrap, loops := [], inFn := true, fnUsed := guardsInL .function p } : Cx) fl0 := by
    intro hu
    simp only [ownerUsed, List.getLast?_nil] at hu
    simpa [Cx.flowFlag] using h0 hu
  obtain ⟨fl', rv', he, hp⟩ := lower_correct_item h _ fl0 none (good_function style wrap p hwf) hinv
  refine ⟨fl', rv', eval_seq_append hpre he, ?_, ?_⟩
  · cases sig with
    | normal => exact hp.2
    | brk => obtain ⟨l, hl, _⟩ := hp; simp at hl
    | cont => obtain ⟨l, hl, _⟩ := hp; simp at hl
    | ret v => cases v <;> exact hp.2.2
  · cases sig with
    | normal => exact Or.inl rfl
    | brk => obtain ⟨l, hl, _⟩ := hp; simp at hl
    | cont => obtain ⟨l, hl, _⟩ := hp; simp at hl
    | ret v => exact Or.inr ⟨v, rfl⟩

end OlVerif.Ctrl
