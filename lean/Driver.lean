/-
  Line protocol: one JSON object per line in, one JSON value per line out.
  Core Lean only (no Mathlib), so it links as a native executable.
-/
import OlVerif.Ops

open Lean OlVerif

partial def loop (hin : IO.FS.Stream) (hout : IO.FS.Stream) : IO Unit := do
  let line ← hin.getLine
  if line.isEmpty then return ()
  let out :=
    match Json.parse line with
    | .error e => Json.mkObj [("error", .str s!"json: {e}")]
    | .ok j => OlVerif.handle j
  hout.putStrLn out.compress
  hout.flush
  loop hin hout

def main : IO Unit := do
  loop (← IO.getStdin) (← IO.getStdout)
