import OlVerif.Ast
import OlVerif.Json
import OlVerif.Gen.Prec
import OlVerif.Gen.Escape
import OlVerif.Unparse.Model
import OlVerif.Ops
